#!/bin/sh
# Builds the verifier from vendored sources only (offline).
set -e
cd /verif/engine
export GOFLAGS=-mod=vendor GOPROXY=off GOSUMDB=off GOTOOLCHAIN=local CGO_ENABLED=0
go1.26 build -o /verif/bin/govc .
echo "govc built"
