package parser

import "testing"

// A token's column is 1 + the number of characters before it on its line.
func TestZZTokenColumnNonASCII(t *testing.T) {
	toks, err := NewLexer("const x = 1;\n  ééééé ééééé").Tokenize()
	if err != nil {
		t.Fatal(err)
	}
	for _, tk := range toks {
		if tk.Column < 1 {
			t.Errorf("token %q on line %d has column %d (< 1)", tk.Lexeme, tk.Line, tk.Column)
		}
	}
	// second identifier on line 2 starts after 2 spaces + 5 letters + 1 space = column 9
	var ids []Token
	for _, tk := range toks {
		if tk.Line == 2 && tk.Kind == TokenIdent {
			ids = append(ids, tk)
		}
	}
	if len(ids) == 2 && (ids[0].Column != 3 || ids[1].Column != 9) {
		t.Errorf("columns of the two identifiers on line 2: %d, %d (want 3, 9)", ids[0].Column, ids[1].Column)
	}
}
