package naga

// Demo for the C08 defect repaired by /repo commit 2c73108: valid WGSL programs whose
// helper functions use `break` inside a switch (outside a loop, or inside a
// continuing block), or break/continue inside a loop nested in a continuing
// block, were rejected by the validator. Copy to /repo root and run
//   go test -vet=off -count=1 -run TestValidatorBreakInSwitchDemo .
// It fails on the parent of the fix commit and passes from the fix on.

import "testing"

func TestValidatorBreakInSwitchDemo(t *testing.T) {
	srcs := map[string]string{
		"break-in-switch":               `fn h(x: i32) -> i32 { var y = x; switch x { case 1: { y = 2; break; } default: { } } return y; } @compute @workgroup_size(1) fn main() { _ = h(1); }`,
		"break-in-switch-in-if":         `fn h(x: i32) -> i32 { var y = x; switch x { case 1: { if y == 1 { break; } y = 3; } default: { } } return y; } @compute @workgroup_size(1) fn main() { _ = h(1); }`,
		"break-in-switch-in-continuing": `fn h(x: i32) -> i32 { var y = x; loop { if y > 3 { break; } continuing { switch y { case 1: { break; } default: { } } y = y + 1; } } return y; } @compute @workgroup_size(1) fn main() { _ = h(1); }`,
		"loop-in-continuing":            `fn h(x: i32) -> i32 { var y = x; loop { if y > 3 { break; } continuing { var k = 0; loop { if k > 2 { break; } k = k + 1; } y = y + 1; } } return y; } @compute @workgroup_size(1) fn main() { _ = h(1); }`,
	}
	for n, s := range srcs {
		if _, err := Compile(s); err != nil {
			t.Errorf("%s: valid program rejected: %v", n, err)
		}
	}
}
