package naga

// Demo for the C01 defect repaired by "fix: module-scope variables lose initialisers that are not bare literals":
// `var<private> p: i32 = -1;` (also `= C;`, `= 1 + 2;`) was lowered without an initialiser, so every back end
// zero-initialised p. Copy to /repo root: go test -vet=off -count=1 -run TestPrivateVarConstExprInitDemo .

import (
	"strings"
	"testing"

	"github.com/gogpu/naga/msl"
)

func TestPrivateVarConstExprInitDemo(t *testing.T) {
	for decl, want := range map[string]string{
		`var<private> p: i32 = -1;`:                  "int p = -1;",
		`const C: i32 = 7; var<private> p: i32 = C;`: "int p = 7;",
		`var<private> p: i32 = 1 + 2;`:              "int p = 3;",
		`var<private> p: f32 = 2.0 * 3.0;`:          "float p = 6.0;",
	} {
		src := decl + `
@group(0) @binding(0) var<storage, read_write> o: array<f32>;
@compute @workgroup_size(1) fn main() { o[0] = f32(p); }`
		ast, err := Parse(src)
		if err != nil {
			t.Fatal(err)
		}
		m, err := Lower(ast)
		if err != nil {
			t.Fatalf("%s: %v", decl, err)
		}
		out, _, err := msl.Compile(m, msl.DefaultOptions())
		if err != nil {
			t.Fatalf("%s: %v", decl, err)
		}
		if !strings.Contains(out, want) {
			t.Errorf("%s: initialiser lost, MSL does not contain %q", decl, want)
		}
	}
}
