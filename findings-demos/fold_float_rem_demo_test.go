package naga_test

import (
	"strings"
	"testing"

	"github.com/gogpu/naga"
	"github.com/gogpu/naga/ir"
)

// WGSL: e1 % e2 on floats is e1 - e2*trunc(e1/e2); the folded constant must be
// that value also when the quotient does not fit in an int64.
func TestZZFoldFloatRemainderLargeQuotient(t *testing.T) {
	src := "const A: f32 = 1e30;\n@compute @workgroup_size(1) fn main() { var x = A % 7.0; _ = x; }\n"
	ast, err := naga.Parse(src)
	if err != nil {
		t.Fatal(err)
	}
	mod, err := naga.LowerWithSource(ast, src)
	if err != nil {
		t.Fatal(err)
	}
	found := false
	for _, ep := range mod.EntryPoints {
		for _, e := range ep.Function.Expressions {
			if lit, ok := e.Kind.(ir.Literal); ok {
				if f, ok := lit.Value.(ir.LiteralF32); ok {
					found = true
					if float32(f) < 0 || float32(f) >= 7 {
						t.Errorf("folded 1e30 %% 7.0 = %v; a remainder by 7 lies in [0,7)", float32(f))
					}
				}
			}
		}
	}
	if !found {
		t.Skip("expression was not folded: " + strings.TrimSpace(src))
	}
}
