package naga

// Demo for the C06/C01 defect repaired by "fix: SPIR-V f16 constants ...": the same value written as an
// abstract-float literal (`o[0] = 0.00000038743025;`, converted by spirv float32ToF16Bits) and as an f16
// literal (`0.00000038743025h`, converted by the lowerer) must be the same half constant (0x0007: the value
// is just above 6.5 * 2^-24). The SPIR-V converter dropped the bits shifted out of a subnormal before it
// looked for a tie and emitted 0x0006.
// Copy to /repo root: go test -vet=off -count=1 -run TestSpirvF16ConstantRoundingDemo .

import (
	"encoding/binary"
	"testing"
)

func f16Constants(t *testing.T, src string) []uint32 {
	spv, err := Compile(src)
	if err != nil {
		t.Fatal(err)
	}
	var out []uint32
	f16Type := uint32(0)
	for p := 5; p < len(spv)/4; {
		w := binary.LittleEndian.Uint32(spv[p*4:])
		wc, op := int(w>>16), w&0xffff
		if wc == 0 {
			break
		}
		if op == 22 && binary.LittleEndian.Uint32(spv[(p+2)*4:]) == 16 {
			f16Type = binary.LittleEndian.Uint32(spv[(p+1)*4:])
		}
		if op == 43 && wc == 4 && binary.LittleEndian.Uint32(spv[(p+1)*4:]) == f16Type {
			out = append(out, binary.LittleEndian.Uint32(spv[(p+3)*4:]))
		}
		p += wc
	}
	return out
}

func TestSpirvF16ConstantRoundingDemo(t *testing.T) {
	pre := `enable f16; @group(0) @binding(0) var<storage, read_write> o: array<f16>; @compute @workgroup_size(1) fn main() { o[0] = `
	abstract := f16Constants(t, pre+`0.00000038743025; }`)
	suffixed := f16Constants(t, pre+`0.00000038743025h; }`)
	if len(abstract) != 1 || len(suffixed) != 1 || abstract[0] != suffixed[0] || abstract[0] != 7 {
		t.Errorf("f16 constant for 0.00000038743025: abstract literal %#x, h-suffixed literal %#x, want 0x7 for both", abstract, suffixed)
	}
}
