package naga

// Demo (C12 defect repaired by "fix: the name recorded for an expression aliased by several unused let bindings ..."):
// copy to /repo root, go test -vet=off -count=1 -run TestC12UnusedLetNamesDeterministic .

import (
	"testing"

	"github.com/gogpu/naga/msl"
)

func TestC12UnusedLetNamesDeterministic(t *testing.T) {
	src := `@group(0) @binding(0) var<storage, read_write> o: array<f32>;
@compute @workgroup_size(1) fn main(@builtin(global_invocation_id) id: vec3<u32>) {
    let a = o[id.x] * 2.0;
    let bb = a; let cc = a; let dd = a; let ee = a;
    o[id.x] = 1.0;
}`
	first := ""
	for i := 0; i < 60; i++ {
		ast, err := Parse(src)
		if err != nil {
			t.Fatal(err)
		}
		m, err := Lower(ast)
		if err != nil {
			t.Fatal(err)
		}
		out, _, err := msl.Compile(m, msl.DefaultOptions())
		if err != nil {
			t.Fatal(err)
		}
		if first == "" {
			first = out
		} else if out != first {
			t.Fatalf("compile %d of the same source gives different MSL:\n--- first\n%s\n--- now\n%s", i+1, first, out)
		}
	}
}
