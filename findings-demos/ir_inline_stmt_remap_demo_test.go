package ir

import "testing"

// A statement copied from an inlined callee must have every expression handle
// rewritten through the callee->caller map, whatever its kind.
func TestZZInlineRemapsEveryStatementKind(t *testing.T) {
	exprMap := []ExpressionHandle{10, 11, 12, 13}
	got := remapInlineStatementHandles(Statement{Kind: StmtSubgroupCollectiveOperation{Argument: 1, Result: 2}}, exprMap, 0)
	k := got.Kind.(StmtSubgroupCollectiveOperation)
	if k.Argument != 11 || k.Result != 12 {
		t.Errorf("subgroup collective op: Argument=%d Result=%d, want 11 12", k.Argument, k.Result)
	}
	got = remapInlineStatementHandles(Statement{Kind: StmtWorkGroupUniformLoad{Pointer: 0, Result: 3}}, exprMap, 0)
	w := got.Kind.(StmtWorkGroupUniformLoad)
	if w.Pointer != 10 || w.Result != 13 {
		t.Errorf("workgroupUniformLoad: Pointer=%d Result=%d, want 10 13", w.Pointer, w.Result)
	}
	cmp := ExpressionHandle(2)
	got = remapInlineStatementHandles(Statement{Kind: StmtAtomic{Pointer: 0, Value: 1, Fun: AtomicExchange{Compare: &cmp}}}, exprMap, 0)
	a := got.Kind.(StmtAtomic)
	if c := a.Fun.(AtomicExchange).Compare; c == nil || *c != 12 {
		t.Errorf("atomic compare-exchange: Compare not remapped (got %v, want 12)", *c)
	}
}
