package naga

// Demo (C12 defect repaired by "fix: a reused SPIR-V backend keeps the raised version ..."): copy to /repo root,
// go test -vet=off -count=1 -run TestC12BackendReuseVersionLeak .

import (
	"bytes"
	"testing"

	"github.com/gogpu/naga/ir"
	"github.com/gogpu/naga/spirv"
)

func lowerSrc(t *testing.T, src string) *ir.Module {
	t.Helper()
	ast, err := Parse(src)
	if err != nil {
		t.Fatal(err)
	}
	m, err := Lower(ast)
	if err != nil {
		t.Fatal(err)
	}
	return m
}

func TestC12BackendReuseVersionLeak(t *testing.T) {
	needs14 := `struct S { a: array<vec4<f32>, 2>, b: f32 }
var<workgroup> w: S;
@group(0) @binding(0) var<storage, read_write> o: S;
@compute @workgroup_size(1) fn main() { let v = o; w = v; workgroupBarrier(); o = w; }`
	simple := `@group(0) @binding(0) var<storage, read_write> o: array<f32>;
@compute @workgroup_size(1) fn main() { o[0] = 1.0; }`
	opts := spirv.DefaultOptions()
	fresh := spirv.NewBackend(opts)
	want, err := fresh.Compile(lowerSrc(t, simple))
	if err != nil {
		t.Fatal(err)
	}
	reused := spirv.NewBackend(opts)
	first, err := reused.Compile(lowerSrc(t, needs14))
	if err != nil {
		t.Fatal(err)
	}
	t.Logf("first module version word: %#x", first[4:8])
	got, err := reused.Compile(lowerSrc(t, simple))
	if err != nil {
		t.Fatal(err)
	}
	if !bytes.Equal(got, want) {
		t.Errorf("the same module compiles differently on a backend that compiled another module before: version word %#x vs %#x on a fresh backend (%d vs %d bytes)", got[4:8], want[4:8], len(got), len(want))
	}
}
