package dce

import (
	"testing"

	"github.com/gogpu/naga/ir"
)

// The level-of-detail operand of a sampled-image expression is an operand like
// any other: if the image sample is live, the expression computing the LOD is.
func TestZZDCEKeepsSampleLevelOperand(t *testing.T) {
	lod := ir.ExpressionHandle(3)
	fn := &ir.Function{
		Expressions: []ir.Expression{
			{Kind: ir.ExprGlobalVariable{Variable: 0}},                  // 0 image
			{Kind: ir.ExprGlobalVariable{Variable: 1}},                  // 1 sampler
			{Kind: ir.ExprFunctionArgument{Index: 0}},                   // 2 uv
			{Kind: ir.ExprFunctionArgument{Index: 1}},                   // 3 x
			{Kind: ir.ExprBinary{Op: ir.BinaryAdd, Left: lod, Right: lod}}, // 4 lod = x + x
			{Kind: ir.ExprImageSample{Image: 0, Sampler: 1, Coordinate: 2, Level: ir.SampleLevelExact{Level: 4}}}, // 5
		},
		Body: ir.Block{
			{Kind: ir.StmtEmit{Range: ir.Range{Start: 4, End: 6}}},
			{Kind: ir.StmtReturn{Value: func() *ir.ExpressionHandle { h := ir.ExpressionHandle(5); return &h }()}},
		},
	}
	live := markLive(&ir.Module{}, fn)
	if !live[5] {
		t.Fatalf("the returned image sample is not live")
	}
	if !live[4] {
		t.Errorf("LOD operand (expression 4) of the live image sample is considered dead")
	}
	Run(&ir.Module{}, fn)
	for _, s := range fn.Body {
		if e, ok := s.Kind.(ir.StmtEmit); ok {
			t.Logf("emit range after DCE: [%d,%d)", e.Range.Start, e.Range.End)
			if e.Range.Start > 4 {
				t.Errorf("expression 4 (the LOD) is no longer emitted before its use by expression 5")
			}
		}
	}
}
