package codegen

import (
	"testing"

	"github.com/gogpu/naga/ir"
)

// References inside a nested plain block count like references anywhere else
// (they decide which expressions are baked into a temporary before reuse).
func TestZZCountRefsInNestedBlock(t *testing.T) {
	w := &Writer{}
	refs := make([]int, 4)
	inner := ir.Block{{Kind: ir.StmtStore{Pointer: 1, Value: 2}}, {Kind: ir.StmtStore{Pointer: 1, Value: 2}}}
	w.countStmtExprRefs([]ir.Statement{{Kind: ir.StmtBlock{Block: inner}}}, refs)
	if refs[1] != 2 || refs[2] != 2 {
		t.Errorf("reference counts inside a nested block: %v, want [0 2 2 0]", refs)
	}
}
