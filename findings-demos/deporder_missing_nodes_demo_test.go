package naga

// Demo for the C08/C11 defect repaired by "fix: declaration ordering misses ...": the dependency collector of the
// WGSL front end did not look inside bitcast<T>(e), binding_array<T, N> and function-body const_assert. A declaration
// used only there was lowered after its user. Copy to /repo root: go test -vet=off -count=1 -run TestDepOrderMissingNodesDemo .

import "testing"

func TestDepOrderMissingNodesDemo(t *testing.T) {
	valid := map[string]string{
		"call inside bitcast, callee declared later": `fn f() -> u32 { return bitcast<u32>(g(1.0)); } fn g(x: f32) -> f32 { return x; } @compute @workgroup_size(1) fn main() { _ = f(); }`,
		"binding_array of a struct declared later":   `@group(0) @binding(0) var<storage> a: binding_array<S, 4>; struct S { v: f32 } @compute @workgroup_size(1) fn main() { _ = a[0].v; }`,
	}
	for n, s := range valid {
		if _, err := Compile(s); err != nil {
			t.Errorf("%s: valid program rejected: %v", n, err)
		}
	}
	invalid := map[string]string{
		"false const_assert on a constant declared later": `fn f() { const_assert X > 5; } const X = 1; @compute @workgroup_size(1) fn main() { f(); }`,
		"wrong arity inside bitcast, callee declared later": `fn f() -> u32 { return bitcast<u32>(g(1.0, 2.0)); } fn g(x: f32) -> f32 { return x; } @compute @workgroup_size(1) fn main() { _ = f(); }`,
	}
	for n, s := range invalid {
		ast, err := Parse(s)
		if err != nil {
			continue
		}
		if _, err := Lower(ast); err == nil {
			t.Errorf("%s: invalid program passed lowering", n)
		}
	}
}
