package naga

// Demo for the C06 defect repaired by the "fix: module-scope float constant expressions ..." commit:
// `const c: f16 = 0.5h * 0.25h;` was stored with the bits of the *f32* value (0x3e000000), of which the
// SPIR-V back end emitted the low 16 bits (0x0000 = 0.0) as the f16 constant; the correct half bits are 0x3000 (0.125).
// Copy to /repo root: go test -vet=off -count=1 -run TestModuleConstF16BitsDemo .

import (
	"encoding/binary"
	"testing"
)

func TestModuleConstF16BitsDemo(t *testing.T) {
	src := `enable f16; const c: f16 = 0.5h * 0.25h; @group(0) @binding(0) var<storage, read_write> o: array<f16>; @compute @workgroup_size(1) fn main() { o[0] = c; }`
	spv, err := Compile(src)
	if err != nil {
		t.Fatal(err)
	}
	f16Type := uint32(0)
	found := false
	for p := 5; p < len(spv)/4; {
		w := binary.LittleEndian.Uint32(spv[p*4:])
		wc, op := int(w>>16), w&0xffff
		if wc == 0 {
			break
		}
		if op == 22 && binary.LittleEndian.Uint32(spv[(p+2)*4:]) == 16 { // OpTypeFloat 16
			f16Type = binary.LittleEndian.Uint32(spv[(p+1)*4:])
		}
		if op == 43 && wc == 4 && f16Type != 0 && binary.LittleEndian.Uint32(spv[(p+1)*4:]) == f16Type { // OpConstant of type half
			found = true
			if v := binary.LittleEndian.Uint32(spv[(p+3)*4:]); v != 0x3000 {
				t.Errorf("f16 constant 0.5h*0.25h emitted as 0x%04x, want 0x3000 (0.125)", v)
			}
		}
		p += wc
	}
	if !found {
		t.Fatal("no f16 OpConstant found")
	}
}
