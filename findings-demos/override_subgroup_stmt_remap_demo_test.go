package naga

// Demo: copy to /repo root and run `go test -vet=off -count=1 -run TestC14 .`

import (
	"strings"
	"testing"

	"github.com/gogpu/naga/glsl"
	"github.com/gogpu/naga/ir"
)

const c14bsrc = `
enable subgroups;
override n: u32 = 2u;
@group(0) @binding(0) var<storage, read_write> out: array<u32>;
@compute @workgroup_size(64) fn main(@builtin(local_invocation_index) id: u32) {
    let a = id + n;
    let s = subgroupAdd(a);
    out[id] = s;
}
`

func TestC14SubgroupStatementKeepsItsOperandAfterOverrideResolution(t *testing.T) {
	ast, err := Parse(c14bsrc)
	if err != nil {
		t.Fatal(err)
	}
	m, err := Lower(ast)
	if err != nil {
		t.Fatal(err)
	}
	find := func(m *ir.Module) (arg, res ir.ExpressionHandle, exprs []ir.Expression) {
		fn := &m.EntryPoints[0].Function
		for _, st := range fn.Body {
			if k, ok := st.Kind.(ir.StmtSubgroupCollectiveOperation); ok {
				return k.Argument, k.Result, fn.Expressions
			}
		}
		t.Fatal("no subgroup statement")
		return
	}
	a0, r0, e0 := find(m)
	t.Logf("before: argument %d (%T), result %d (%T)", a0, e0[a0].Kind, r0, e0[r0].Kind)
	clone := ir.CloneModuleForOverrides(m)
	if err := ir.ProcessOverrides(clone, ir.PipelineConstants{"n": 5}); err != nil {
		t.Fatal(err)
	}
	a1, r1, e1 := find(clone)
	if int(a1) >= len(e1) || int(r1) >= len(e1) {
		t.Fatalf("after override resolution the subgroup statement refers to expressions %d/%d of %d", a1, r1, len(e1))
	}
	t.Logf("after:  argument %d (%T), result %d (%T)", a1, e1[a1].Kind, r1, e1[r1].Kind)
	if _, ok := e1[r1].Kind.(ir.ExprSubgroupOperationResult); !ok {
		t.Errorf("the statement's Result handle %d now names a %T, not the subgroup result expression", r1, e1[r1].Kind)
	}
	if _, ok := e1[a1].Kind.(ir.ExprBinary); !ok {
		t.Errorf("the statement's Argument handle %d now names a %T, not `id + n`", a1, e1[a1].Kind)
	}
	opts := glsl.DefaultOptions()
	opts.PipelineConstants = ir.PipelineConstants{"n": 5}
	src, _, err := glsl.Compile(m, opts)
	if err != nil {
		t.Logf("glsl: %v", err)
	} else if !strings.Contains(src, "subgroupAdd") {
		t.Logf("glsl output:\n%s", src)
	}
}
