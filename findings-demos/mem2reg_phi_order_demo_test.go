package mem2reg

// Demo (C12 defect repaired by "fix: DXIL mem2reg numbers ..."): copy to /repo/dxil/internal/passes/mem2reg/ and run
//   go test -vet=off -count=1 -run TestC12PhiOrderDeterministic ./dxil/internal/passes/mem2reg/

import (
	"fmt"
	"testing"

	"github.com/gogpu/naga/ir"
	"github.com/gogpu/naga/wgsl"
)

func TestC12PhiOrderDeterministic(t *testing.T) {
	src := `@group(0) @binding(0) var<storage, read_write> o: array<f32>;
@compute @workgroup_size(1) fn main(@builtin(global_invocation_id) id: vec3<u32>) {
    var a: f32 = 0.5; var b: f32 = 1.5; var c: f32 = 2.5; var d: f32 = 3.5;
    if id.x > 3u { a = 1.0; b = 2.0; c = 3.0; d = 4.0; }
    o[id.x] = a + b * c - d;
}`
	first := ""
	for i := 0; i < 40; i++ {
		toks, err := wgsl.NewLexer(src).Tokenize()
		if err != nil {
			t.Fatal(err)
		}
		ast, err := wgsl.NewParser(toks).Parse()
		if err != nil {
			t.Fatal(err)
		}
		m, err := wgsl.Lower(ast)
		if err != nil {
			t.Fatal(err)
		}
		fn := &m.EntryPoints[0].Function
		if err := Run(m, fn); err != nil {
			t.Fatal(err)
		}
		sig := ""
		for h, e := range fn.Expressions {
			if p, ok := e.Kind.(ir.ExprPhi); ok {
				sig += fmt.Sprintf("[%d:%v]", h, p.Incoming)
			}
		}
		if first == "" {
			first = sig
			t.Logf("phis: %s", sig)
		} else if sig != first {
			t.Fatalf("run %d numbers the phi expressions differently:\n first %s\n now   %s", i+1, first, sig)
		}
	}
}
