package ir

import "testing"

func TestZZOverrideRemapDemo(t *testing.T) {
	handleMap := []ExpressionHandle{10, 11, 12, 13, 14, 15}
	ai := ExpressionHandle(2)
	orig := ExprImageSample{Image: 0, Sampler: 1, Coordinate: 2, ArrayIndex: &ai, Level: SampleLevelGradient{X: 3, Y: 4}}
	got := overrideRemapExprHandles(orig, handleMap).(ExprImageSample)
	g := got.Level.(SampleLevelGradient)
	if g.X != 13 || g.Y != 14 {
		t.Errorf("gradient handles not remapped: X=%d Y=%d (want 13, 14)", g.X, g.Y)
	}
	if *orig.ArrayIndex != 2 {
		t.Errorf("caller's ArrayIndex cell was overwritten in place: now %d (was 2)", *orig.ArrayIndex)
	}
	rq := overrideRemapExprHandles(ExprRayQueryGetIntersection{Query: 5, Committed: true}, handleMap).(ExprRayQueryGetIntersection)
	if rq.Query != 15 {
		t.Errorf("ray query handle not remapped: %d (want 15)", rq.Query)
	}
}
