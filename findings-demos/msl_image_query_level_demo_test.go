package codegen

import (
	"testing"

	"github.com/gogpu/naga/ir"
)

// textureDimensions(t, level): the level operand is an expression handle like
// any other and must follow the arena renumbering of the pipeline-constant pass.
func TestZZAdjustImageQueryLevel(t *testing.T) {
	handleMap := []ir.ExpressionHandle{10, 11, 12, 13}
	lvl := ir.ExpressionHandle(2)
	got := adjustExprHandles(ir.ExprImageQuery{Image: 1, Query: ir.ImageQuerySize{Level: &lvl}}, handleMap).(ir.ExprImageQuery)
	q := got.Query.(ir.ImageQuerySize)
	if got.Image != 11 {
		t.Errorf("Image = %d, want 11", got.Image)
	}
	if q.Level == nil || *q.Level != 12 {
		t.Errorf("ImageQuerySize.Level not remapped: got %v, want 12", *q.Level)
	}
	if lvl != 2 {
		t.Errorf("caller's level cell was overwritten")
	}
}
