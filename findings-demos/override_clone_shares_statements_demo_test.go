package naga

// Demo: copy to /repo root and run `go test -vet=off -count=1 -run TestC14 .`

import (
	"fmt"
	"testing"

	"github.com/gogpu/naga/glsl"
	"github.com/gogpu/naga/ir"
	"github.com/gogpu/naga/spirv"
)

const c14src = `
override n: i32 = 2;
@group(0) @binding(0) var<storage, read_write> out: array<i32>;
fn f(x: i32) -> i32 {
    if x > 0 {
        return x + n;
    }
    return x;
}
@compute @workgroup_size(1) fn main() { out[0] = f(1); }
`

func TestC14OverridePassMutatesCallerModule(t *testing.T) {
	ast, err := Parse(c14src)
	if err != nil {
		t.Fatal(err)
	}
	m, err := Lower(ast)
	if err != nil {
		t.Fatal(err)
	}
	dump := func() string {
		var sb []byte
		var walk func(b ir.Block)
		walk = func(b ir.Block) {
			for _, st := range b {
				switch k := st.Kind.(type) {
				case ir.StmtIf:
					sb = append(sb, []byte(fmtf("if(%d){", k.Condition))...)
					walk(k.Accept)
					sb = append(sb, '}')
					walk(k.Reject)
				case ir.StmtReturn:
					if k.Value != nil {
						sb = append(sb, []byte(fmtf("ret %d;", *k.Value))...)
					}
				case ir.StmtEmit:
					sb = append(sb, []byte(fmtf("emit %d..%d;", k.Range.Start, k.Range.End))...)
				}
			}
		}
		walk(m.Functions[0].Body)
		return string(sb)
	}
	before := dump()
	opts := glsl.DefaultOptions()
	opts.PipelineConstants = ir.PipelineConstants{"n": 5}
	first, _, err := glsl.Compile(m, opts)
	if err != nil {
		t.Fatalf("first compile: %v", err)
	}
	if after := dump(); after != before {
		t.Errorf("caller's module changed by Compile:\n before %s\n after  %s", before, after)
	}
	// the same source lowered again, never touched by the GLSL back end
	ast2, _ := Parse(c14src)
	m2, _ := Lower(ast2)
	spvTouched, err1 := GenerateSPIRV(m, spirv.DefaultOptions())
	spvFresh, err2 := GenerateSPIRV(m2, spirv.DefaultOptions())
	if fmt.Sprint(err1) != fmt.Sprint(err2) || string(spvTouched) != string(spvFresh) {
		t.Errorf("generating SPIR-V from the module after a GLSL compile behaves differently from a freshly lowered module: err=%v, %d bytes (fresh: err=%v, %d bytes)", err1, len(spvTouched), err2, len(spvFresh))
	}
	second, _, err := glsl.Compile(m, opts)
	if err != nil {
		t.Fatalf("second compile of the same module: %v", err)
	}
	if first != second {
		t.Errorf("compiling the same module twice gives different GLSL:\n--- first\n%s\n--- second\n%s", first, second)
	}
}

func fmtf(f string, a ...any) string { return fmt.Sprintf(f, a...) }
