package naga

// Demo (known finding, C14): copy to /repo root, go test -vet=off -count=1 -run TestC14MslOverflowFold -v . ; the log shows `constant int b = (-2147483647 - 1);` for a = 100000.

import (
	"strings"
	"testing"

	"github.com/gogpu/naga/ir"
	"github.com/gogpu/naga/msl"
)

func TestC14MslOverflowFold(t *testing.T) {
	src := `override a: i32 = 3;
override b: i32 = a * a;
@group(0) @binding(0) var<storage, read_write> o: array<i32>;
@compute @workgroup_size(1) fn main() { o[0] = b; }`
	ast, err := Parse(src)
	if err != nil {
		t.Fatal(err)
	}
	m, err := Lower(ast)
	if err != nil {
		t.Fatal(err)
	}
	for _, v := range []float64{3, 100000} {
		opts := msl.DefaultOptions()
		opts.PipelineConstants = ir.PipelineConstants{"a": v}
		out, _, err := msl.Compile(m, opts)
		if err != nil {
			t.Logf("a=%v: err=%v", v, err)
			continue
		}
		for _, ln := range strings.Split(out, "\n") {
			if strings.Contains(ln, "constant") || strings.Contains(ln, " b ") || strings.Contains(ln, "b =") {
				t.Logf("a=%v: %s", v, ln)
			}
		}
	}
}
