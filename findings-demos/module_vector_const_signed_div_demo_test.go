package naga

// Demo for the C06 defect repaired by "fix: module-scope vector constants divide signed integers as unsigned":
// `const A: vec2<i32> = vec2<i32>(-7, 6) / vec2<i32>(2, -2);` folded to (-4, 0); the same expression in a
// function body (and WGSL) gives (-3, -3). Copy to /repo root: go test -vet=off -count=1 -run TestModuleVectorConstSignedDivDemo .

import (
	"strings"
	"testing"

	"github.com/gogpu/naga/msl"
)

func TestModuleVectorConstSignedDivDemo(t *testing.T) {
	src := `const A: vec2<i32> = vec2<i32>(-7, 6) / vec2<i32>(2, -2);
@group(0) @binding(0) var<storage, read_write> o: array<i32>;
@compute @workgroup_size(1) fn main() { o[0] = A.x; o[1] = A.y; }`
	ast, err := Parse(src)
	if err != nil {
		t.Fatal(err)
	}
	m, err := Lower(ast)
	if err != nil {
		t.Fatal(err)
	}
	out, _, err := msl.Compile(m, msl.DefaultOptions())
	if err != nil {
		t.Fatal(err)
	}
	if !strings.Contains(out, "metal::int2(-3, -3)") {
		t.Errorf("vec2<i32>(-7, 6) / vec2<i32>(2, -2) at module scope is not (-3, -3):\n%s", out)
	}
}
