package naga

// Demo for the C04 defect repaired by "fix: MSL prints an inline scalar select operand of a binary operator without
// parentheses": `x + select(1.0, 2.0, c)` was emitted as `x + c ? 2.0 : 1.0`, which C++ parses as `(x + c) ? 2.0 : 1.0`.
// Copy to /repo root: go test -vet=off -count=1 -run TestMslSelectOperandParensDemo .

import (
	"strings"
	"testing"

	"github.com/gogpu/naga/msl"
)

func TestMslSelectOperandParensDemo(t *testing.T) {
	src := `@group(0) @binding(0) var<storage, read_write> o: array<f32>;
@compute @workgroup_size(1) fn main(@builtin(global_invocation_id) id: vec3<u32>) { let c = id.x > 1u; let x = o[1]; o[0] = x + select(1.0, 2.0, c); }`
	ast, err := Parse(src)
	if err != nil {
		t.Fatal(err)
	}
	m, err := Lower(ast)
	if err != nil {
		t.Fatal(err)
	}
	out, _, err := msl.Compile(m, msl.DefaultOptions())
	if err != nil {
		t.Fatal(err)
	}
	if strings.Contains(out, "x + c ? 2.0 : 1.0") || !strings.Contains(out, "x + (c ? 2.0 : 1.0)") {
		t.Errorf("the select operand is not parenthesised:\n%s", out)
	}
}
