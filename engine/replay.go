package main

import (
	"context"
	"encoding/json"
	"fmt"
	"go/types"
	"math/big"
	"os"
	"os/exec"
	"path/filepath"
	"regexp"
	"strings"
	"time"

	"golang.org/x/tools/go/ssa"
)

// Replay turns a solver model into a call of the real function: an in-package
// test is injected with `go test -overlay` (the repository is not touched), the
// function is run on the model's inputs and the violated clause is re-evaluated
// on the observed result by the solver (a ground query, no search).

type replayOut struct {
	files     map[string]string
	log       string
	confirmed bool
}

// ---- model parsing ---------------------------------------------------------

type sexp struct {
	atom string
	list []*sexp
}

func parseSexp(s string) []*sexp {
	var toks []string
	i := 0
	for i < len(s) {
		c := s[i]
		switch {
		case c == '(' || c == ')':
			toks = append(toks, string(c))
			i++
		case c == ' ' || c == '\n' || c == '\t' || c == '\r':
			i++
		case c == '|':
			j := strings.IndexByte(s[i+1:], '|')
			if j < 0 {
				j = len(s) - i - 2
			}
			toks = append(toks, s[i:i+j+2])
			i += j + 2
		default:
			j := i
			for j < len(s) && !strings.ContainsRune("() \n\t\r", rune(s[j])) {
				j++
			}
			toks = append(toks, s[i:j])
			i = j
		}
	}
	pos := 0
	var parse func() *sexp
	parse = func() *sexp {
		if pos >= len(toks) {
			return nil
		}
		t := toks[pos]
		pos++
		if t == "(" {
			n := &sexp{}
			for pos < len(toks) && toks[pos] != ")" {
				n.list = append(n.list, parse())
			}
			pos++
			return n
		}
		return &sexp{atom: t}
	}
	var out []*sexp
	for pos < len(toks) {
		if toks[pos] == ")" {
			pos++
			continue
		}
		out = append(out, parse())
	}
	return out
}

// bitsOf returns the value of a bit-vector / integer literal.
func bitsOf(x *sexp) (*big.Int, bool) {
	if x == nil {
		return nil, false
	}
	if x.atom != "" {
		a := x.atom
		switch {
		case strings.HasPrefix(a, "#x"):
			v, ok := new(big.Int).SetString(a[2:], 16)
			return v, ok
		case strings.HasPrefix(a, "#b"):
			v, ok := new(big.Int).SetString(a[2:], 2)
			return v, ok
		default:
			v, ok := new(big.Int).SetString(a, 10)
			return v, ok
		}
	}
	if len(x.list) == 2 && x.list[0].atom == "-" {
		v, ok := bitsOf(x.list[1])
		if ok {
			return v.Neg(v), true
		}
	}
	if len(x.list) == 3 && x.list[0].atom == "_" && strings.HasPrefix(x.list[1].atom, "bv") {
		v, ok := new(big.Int).SetString(x.list[1].atom[2:], 10)
		return v, ok
	}
	return nil, false
}

func bitLen(x *sexp) int {
	if x.atom != "" {
		if strings.HasPrefix(x.atom, "#x") {
			return 4 * (len(x.atom) - 2)
		}
		if strings.HasPrefix(x.atom, "#b") {
			return len(x.atom) - 2
		}
	}
	return 0
}

// fpBits returns the IEEE bit pattern of an (fp s e m) / special-value term.
func fpBits(x *sexp, eb, sb int) (*big.Int, bool) {
	if x == nil {
		return nil, false
	}
	if len(x.list) == 4 && x.list[0].atom == "fp" {
		s, ok1 := bitsOf(x.list[1])
		e, ok2 := bitsOf(x.list[2])
		m, ok3 := bitsOf(x.list[3])
		if !ok1 || !ok2 || !ok3 {
			return nil, false
		}
		v := new(big.Int).Lsh(s, uint(eb+sb-1))
		v.Or(v, new(big.Int).Lsh(e, uint(sb-1)))
		v.Or(v, m)
		return v, true
	}
	if len(x.list) == 4 && x.list[0].atom == "_" {
		allE := new(big.Int).Lsh(new(big.Int).Sub(new(big.Int).Lsh(big.NewInt(1), uint(eb)), big.NewInt(1)), uint(sb-1))
		sign := new(big.Int).Lsh(big.NewInt(1), uint(eb+sb-1))
		switch x.list[1].atom {
		case "+zero":
			return big.NewInt(0), true
		case "-zero":
			return sign, true
		case "+oo":
			return allE, true
		case "-oo":
			return new(big.Int).Or(allE, sign), true
		case "NaN":
			return new(big.Int).Or(allE, new(big.Int).Lsh(big.NewInt(1), uint(sb-2))), true
		}
	}
	return nil, false
}

// goLiteral renders a model value as a Go expression of type t.
func goLiteral(x *sexp, t types.Type) (string, bool) {
	b, ok := t.Underlying().(*types.Basic)
	if !ok {
		return "", false
	}
	tn := types.TypeString(t, func(p *types.Package) string { return "" })
	switch {
	case b.Info()&types.IsBoolean != 0:
		if x.atom == "true" || x.atom == "false" {
			return tn + "(" + x.atom + ")", true
		}
	case b.Info()&types.IsInteger != 0:
		v, ok := bitsOf(x)
		if !ok {
			return "", false
		}
		w, signed := intWidth(b)
		if signed && v.Sign() >= 0 && bitLen(x) > 0 && v.Bit(w-1) == 1 {
			v = new(big.Int).Sub(v, new(big.Int).Lsh(big.NewInt(1), uint(w)))
		}
		return fmt.Sprintf("%s(%s)", tn, v.String()), true
	case b.Kind() == types.Float32:
		v, ok := fpBits(x, 8, 24)
		if !ok {
			return "", false
		}
		return fmt.Sprintf("%s(math.Float32frombits(0x%x))", tn, v), true
	case b.Kind() == types.Float64:
		v, ok := fpBits(x, 11, 53)
		if !ok {
			return "", false
		}
		return fmt.Sprintf("%s(math.Float64frombits(0x%x))", tn, v), true
	}
	return "", false
}

func scalarType(t types.Type) bool {
	b, ok := t.Underlying().(*types.Basic)
	return ok && b.Info()&(types.IsBoolean|types.IsInteger|types.IsFloat) != 0 && b.Info()&types.IsUntyped == 0
}

var replayCount int

func tryReplay(o CheckOpts, r Result, reports []*FnReport) *replayOut {
	if replayCount >= 10 || len(o.Overlay) > 0 {
		return nil
	}
	var rep *FnReport
	for _, x := range reports {
		if x.Name == r.Fn {
			rep = x
		}
	}
	if rep == nil || rep.fn == nil || rep.Contract == nil {
		return nil
	}
	fn := rep.fn
	if fn.Signature.Recv() != nil {
		return nil
	}
	for _, p := range fn.Params {
		if !scalarType(p.Type()) {
			return nil
		}
	}
	res := fn.Signature.Results()
	for i := 0; i < res.Len(); i++ {
		if !scalarType(res.At(i).Type()) {
			return nil
		}
	}
	if r.Kind != "post" && r.Kind != "nopanic" {
		return nil
	}
	// model: ((sym val) (sym val) ...)
	ms := strings.TrimSpace(r.Model)
	if i := strings.Index(ms, "("); i >= 0 {
		ms = ms[i:]
	}
	top := parseSexp(ms)
	if len(top) == 0 {
		return nil
	}
	vals := map[string]*sexp{}
	for _, pair := range top[0].list {
		if len(pair.list) == 2 {
			vals[pair.list[0].atom] = pair.list[1]
		}
	}
	var args []string
	inputs := map[string]string{}
	for _, ps := range rep.params {
		v, ok := vals[ps.term]
		var lit string
		if ok {
			lit, ok = goLiteral(v, ps.typ)
		}
		if bs, has := rep.bitsSyms[ps.term]; has {
			// the exact bit pattern (NaN payloads) when the function reads it
			if bv, has := vals[bs]; has {
				if n, good := bitsOf(bv); good {
					tn := types.TypeString(ps.typ, func(p *types.Package) string { return "" })
					if ps.typ.Underlying().(*types.Basic).Kind() == types.Float32 {
						lit, ok = fmt.Sprintf("%s(math.Float32frombits(0x%x))", tn, n), true
					} else {
						lit, ok = fmt.Sprintf("%s(math.Float64frombits(0x%x))", tn, n), true
					}
					vals[ps.term] = parseSexp(fmt.Sprintf("((_ to_fp %s) %s)", map[bool]string{true: "8 24", false: "11 53"}[ps.typ.Underlying().(*types.Basic).Kind() == types.Float32], sexpString(bv)))[0]
				}
			}
		}
		if !ok {
			// the parameter is irrelevant to the query (sliced away): any value will do
			lit = types.TypeString(ps.typ, func(p *types.Package) string { return "" }) + "(0)"
			if b := ps.typ.Underlying().(*types.Basic); b.Info()&types.IsBoolean != 0 {
				lit = "false"
			}
		}
		args = append(args, lit)
		inputs[ps.name] = lit
	}
	replayCount++
	out := &replayOut{files: map[string]string{}}
	var prints []string
	var lhs []string
	for i := 0; i < res.Len(); i++ {
		lhs = append(lhs, fmt.Sprintf("r%d", i))
		b := res.At(i).Type().Underlying().(*types.Basic)
		switch {
		case b.Kind() == types.Float32:
			prints = append(prints, fmt.Sprintf("fmt.Printf(\"REPLAY-RESULT %d f32bits %%d\\n\", math.Float32bits(float32(r%d)))", i, i))
		case b.Kind() == types.Float64:
			prints = append(prints, fmt.Sprintf("fmt.Printf(\"REPLAY-RESULT %d f64bits %%d\\n\", math.Float64bits(float64(r%d)))", i, i))
		case b.Info()&types.IsBoolean != 0:
			prints = append(prints, fmt.Sprintf("fmt.Printf(\"REPLAY-RESULT %d bool %%v\\n\", bool(r%d))", i, i))
		default:
			prints = append(prints, fmt.Sprintf("fmt.Printf(\"REPLAY-RESULT %d int %%d\\n\", r%d)", i, i))
		}
	}
	call := fmt.Sprintf("%s(%s)", fn.Name(), strings.Join(args, ", "))
	if len(lhs) > 0 {
		call = strings.Join(lhs, ", ") + " := " + call
	}
	src := fmt.Sprintf(`package %s

import (
	"fmt"
	"math"
	"testing"
)

var _ = math.Pi

// Generated by govc from the solver's counterexample for obligation
// %s
func TestZZVerifReplay(t *testing.T) {
	defer func() {
		if r := recover(); r != nil {
			fmt.Printf("REPLAY-PANIC %%v\n", r)
		}
	}()
	%s
	%s
}
`, fn.Pkg.Pkg.Name(), r.Name, call, strings.Join(prints, "\n\t"))
	pkgDir := filepath.Dir(rep.Contract.File)
	dir := filepath.Join(o.OutDir, "replay", fileSafe(r.Name))
	os.MkdirAll(dir, 0o755)
	testFile := filepath.Join(dir, "zz_verif_replay_test.go")
	os.WriteFile(testFile, []byte(src), 0o644)
	ov, _ := json.Marshal(map[string]any{"Replace": map[string]string{filepath.Join(pkgDir, "zz_verif_replay_test.go"): testFile}})
	ovFile := filepath.Join(dir, "ov.json")
	os.WriteFile(ovFile, ov, 0o644)
	runsh := fmt.Sprintf("#!/bin/sh\nexport PATH=/opt/veriftools/go1.26.8/bin:$PATH GOFLAGS=-mod=mod GOPROXY=off GOSUMDB=off GOTOOLCHAIN=local\ncd %s && ulimit -v 8000000 && go test -overlay %s -vet=off -count=1 -timeout 60s -run TestZZVerifReplay -v .\n", pkgDir, ovFile)
	os.WriteFile(filepath.Join(dir, "run.sh"), []byte(runsh), 0o755)
	ij, _ := json.MarshalIndent(map[string]any{"function": rep.Name, "obligation": r.Name, "inputs": inputs}, "", " ")
	out.files["input.json"] = string(ij)
	out.files["zz_verif_replay_test.go"] = src
	out.files["ov.json"] = string(ov)
	out.files["run.sh"] = runsh
	ctx, cancel := context.WithTimeout(context.Background(), 120*time.Second)
	defer cancel()
	b, _ := exec.CommandContext(ctx, "/bin/sh", filepath.Join(dir, "run.sh")).CombinedOutput()
	out.log = "---- replay on the real code ----\n" + string(b)
	if r.Kind == "nopanic" {
		out.confirmed = strings.Contains(string(b), "REPLAY-PANIC")
		return out
	}
	if strings.Contains(string(b), "REPLAY-PANIC") {
		out.log += "\nthe real function panicked on the counterexample\n"
		out.confirmed = true
		return out
	}
	// observed results -> ground evaluation of the clause
	obs := map[int]string{}
	re := regexp.MustCompile(`REPLAY-RESULT (\d+) (\w+) (\S+)`)
	for _, m := range re.FindAllStringSubmatch(string(b), -1) {
		var idx int
		fmt.Sscan(m[1], &idx)
		obs[idx] = m[2] + " " + m[3]
	}
	if len(obs) != res.Len() {
		out.log += "\ncould not read the results back\n"
		return out
	}
	verdict, q := groundEval(rep, r, vals, obs)
	out.files["ground.smt2"] = q
	out.log += "\nground evaluation of the clause on (inputs, observed outputs): " + verdict + "\n"
	out.confirmed = verdict == "violated"
	return out
}

// groundEval re-evaluates the violated ensures clause with the parameters fixed
// to the model's values and the result fixed to what the real code returned.
func groundEval(rep *FnReport, r Result, vals map[string]*sexp, obs map[int]string) (string, string) {
	ctr := rep.Contract
	label := r.Group[strings.LastIndex(r.Group, "/post:")+len("/post:"):]
	var clause *Clause
	for i := range ctr.Ensures {
		if ctr.Ensures[i].Label == label {
			clause = &ctr.Ensures[i]
		}
	}
	if clause == nil {
		return "clause not found", ""
	}
	verdict := "undecided"
	var query string
	func() {
		defer func() {
			if x := recover(); x != nil {
				verdict = fmt.Sprint("cannot evaluate: ", x)
			}
		}()
		e := &Engine{sc: newSortCtx(ctr.Mode), prog: rep.prog, contracts: map[string]*Contract{}, preds: rep.preds, declared: map[string]bool{}, hsort: map[string]string{}}
		e.sc.impls = implsOf(rep.prog)
		f := &frame{e: e, fn: rep.fn, vals: map[ssa.Value]Val{}, reach: map[*ssa.BasicBlock]string{}, exitSt: map[*ssa.BasicBlock]*State{},
			edge: map[[2]int]string{}, ctr: ctr, name: rep.Name, params: map[string]Val{}}
		st0 := &State{heaps: map[string]string{}}
		f.pre = st0
		for i, p := range rep.fn.Params {
			t := e.declare("p_"+p.Name(), e.sc.sortOf(p.Type()))
			f.params[p.Name()] = Val{term: t, typ: p.Type()}
			if v, ok := vals[rep.params[i].term]; ok {
				e.decls = append(e.decls, fmt.Sprintf("(assert (= %s %s))", t, sexpString(v)))
			} else {
				e.decls = append(e.decls, fmt.Sprintf("(assert (= %s %s))", t, e.sc.zero(p.Type())))
			}
		}
		env := map[string]Val{}
		res := rep.fn.Signature.Results()
		for i := 0; i < res.Len(); i++ {
			t := res.At(i).Type()
			rt := e.declare("res", e.sc.sortOf(t))
			parts := strings.Fields(obs[i])
			var lit string
			switch parts[0] {
			case "f32bits":
				n, _ := new(big.Int).SetString(parts[1], 10)
				lit = fmt.Sprintf("((_ to_fp 8 24) (_ bv%s 32))", n.String())
			case "f64bits":
				n, _ := new(big.Int).SetString(parts[1], 10)
				lit = fmt.Sprintf("((_ to_fp 11 53) (_ bv%s 64))", n.String())
			case "bool":
				lit = parts[1]
			default:
				n, _ := new(big.Int).SetString(parts[1], 10)
				if e.sc.arith == "int" {
					lit = n.String()
					if n.Sign() < 0 {
						lit = "(- " + new(big.Int).Neg(n).String() + ")"
					}
				} else {
					w, _ := intWidth(t.Underlying().(*types.Basic))
					if n.Sign() < 0 {
						n = new(big.Int).Add(n, new(big.Int).Lsh(big.NewInt(1), uint(w)))
					}
					lit = fmt.Sprintf("(_ bv%s %d)", n.String(), w)
				}
			}
			e.decls = append(e.decls, fmt.Sprintf("(assert (= %s %s))", rt, lit))
			v := Val{term: rt, typ: t}
			env[fmt.Sprintf("result%d", i)] = v
			if res.Len() == 1 {
				env["result"] = v
			}
		}
		for _, n := range sortedKeys(ctr.Funs) {
			e.decls = append(e.decls, fmt.Sprintf("(declare-fun %s %s)", n, ctr.Funs[n]))
		}
		prop := f.evalSpec(clause.Src, st0, env, st0)
		var sb strings.Builder
		sb.WriteString(e.prelude())
		for _, d := range e.decls {
			sb.WriteString(d + "\n")
		}
		// the clause holds on these concrete values iff (not clause) is unsat
		sb.WriteString(fmt.Sprintf("(assert (not %s))\n(check-sat)\n", prop))
		query = sb.String()
		tmp, _ := os.CreateTemp("", "ground*.smt2")
		tmp.WriteString(query)
		tmp.Close()
		defer os.Remove(tmp.Name())
		ctx, cancel := context.WithTimeout(context.Background(), 60*time.Second)
		defer cancel()
		b, _ := exec.CommandContext(ctx, "z3-new", "-T:50", tmp.Name()).CombinedOutput()
		switch firstLine(b) {
		case "sat":
			verdict = "violated"
		case "unsat":
			verdict = "holds (the abstraction was too coarse for this model)"
		default:
			verdict = "undecided: " + firstLine(b)
		}
	}()
	return verdict, query
}

func sexpString(x *sexp) string {
	if x.atom != "" {
		return x.atom
	}
	var ps []string
	for _, c := range x.list {
		ps = append(ps, sexpString(c))
	}
	return "(" + strings.Join(ps, " ") + ")"
}

// runReplay re-runs a replay directory written by an earlier check.
func runReplay(dir string) int {
	b, err := os.ReadFile(filepath.Join(dir, "obligation.txt"))
	if err != nil {
		fmt.Println("not a replay directory:", err)
		return 2
	}
	fmt.Print(string(b))
	if _, err := os.Stat(filepath.Join(dir, "run.sh")); err == nil {
		cmd := exec.Command("/bin/sh", filepath.Join(dir, "run.sh"))
		cmd.Stdout, cmd.Stderr = os.Stdout, os.Stderr
		cmd.Run()
	} else if s, err := os.ReadFile(filepath.Join(dir, "solver.txt")); err == nil {
		fmt.Print(string(s))
	}
	if q := filepath.Join(dir, "query.smt2"); fileExists(q) {
		out, _ := exec.Command("z3-new", "-T:60", q).CombinedOutput()
		fmt.Printf("re-running the failed obligation's query: %s\n", firstLine(out))
	}
	return 0
}

func fileExists(p string) bool {
	_, err := os.Stat(p)
	return err == nil
}

func residualNotes(prop string) []string {
	b, err := os.ReadFile(filepath.Join(verifDir, "contracts", "residual", prop+".txt"))
	if err != nil {
		return nil
	}
	var out []string
	for _, ln := range strings.Split(string(b), "\n") {
		if ln = strings.TrimSpace(ln); ln != "" && !strings.HasPrefix(ln, "#") {
			out = append(out, "not decided (residual): "+ln)
		}
	}
	return out
}
