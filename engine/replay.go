package main

type replayOut struct {
	files     map[string]string
	log       string
	confirmed bool
}

func tryReplay(o CheckOpts, r Result, reports []*FnReport) *replayOut { return nil }

func runReplay(dir string) int { return 0 }


func residualNotes(prop string) []string { return nil }
