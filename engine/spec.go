package main

import (
	"fmt"
	"go/ast"
	"go/constant"
	"go/parser"
	"go/token"
	"go/types"
	"strconv"
	"strings"

	"golang.org/x/tools/go/ssa"
)

// specEnv evaluates one contract expression to an SMT term.
type specEnv struct {
	f          *frame
	pkg        *types.Package // scope for type and constant names
	st         *State
	pre        *State
	names      map[string]Val
	noLocal    bool            // names resolve in the environment only (prev())
	localsFrom *ssa.BasicBlock // with noLocal: locals defined in this block or its dominators still resolve
	closed     bool            // callee clause: the caller's parameters are not visible
}

// splitTop splits s at the first top-level occurrence of sep (outside
// parentheses, brackets, braces and string literals).
func splitTop(s, sep string) (string, string, bool) {
	depth := 0
	inStr := false
	for i := 0; i+len(sep) <= len(s); i++ {
		c := s[i]
		if inStr {
			if c == '\\' {
				i++
			} else if c == '"' {
				inStr = false
			}
			continue
		}
		switch c {
		case '"':
			inStr = true
			continue
		case '(', '[', '{':
			depth++
		case ')', ']', '}':
			depth--
		}
		if depth == 0 && strings.HasPrefix(s[i:], sep) {
			// "==>" must not match inside "<==>"
			if sep == "==>" && i > 0 && s[i-1] == '<' {
				continue
			}
			return s[:i], s[i+len(sep):], true
		}
	}
	return s, "", false
}

func splitAllTop(s, sep string) []string {
	var out []string
	for {
		l, r, ok := splitTop(s, sep)
		if !ok {
			return append(out, s)
		}
		out = append(out, l)
		s = r
	}
}

func (f *frame) evalSpec(src string, st *State, extra map[string]Val, pre *State) string {
	env := map[string]Val{}
	for k, v := range f.named {
		env[k] = v
	}
	for k, v := range extra {
		env[k] = v
	}
	return f.evalSpecEnv(f.fn, src, st, env, pre, false)
}

func (f *frame) mergedEnv(extra map[string]Val) map[string]Val {
	env := map[string]Val{}
	for k, v := range f.named {
		env[k] = v
	}
	for k, v := range f.params {
		env[k] = v
	}
	for k, v := range extra {
		env[k] = v
	}
	return env
}

// evalSpecIn evaluates a clause of another function's contract (a callee at a
// call site): only the given environment is visible.
func (f *frame) evalSpecIn(fn *ssa.Function, src string, st *State, env map[string]Val, pre *State) string {
	return f.evalSpecEnv(fn, src, st, env, pre, true)
}

// Identifier resolution in this function's own clauses: the explicit environment
// (result, loop-carried variables), then the current SSA definition of a source
// variable at the program point (so a reassigned parameter denotes its current
// value in loop and call-site clauses), then the parameters (entry values; in
// post-conditions and inside old() a parameter name always denotes the entry value).
func (f *frame) evalSpecEnv(fn *ssa.Function, src string, st *State, env map[string]Val, pre *State, closed bool) string {
	se := &specEnv{f: f, st: st, pre: pre, names: env, noLocal: closed, closed: closed}
	if fn.Pkg != nil {
		se.pkg = fn.Pkg.Pkg
	}
	if pre == nil {
		se.pre = f.pre
	}
	v := se.evalTop(strings.TrimSpace(src))
	if b, ok := v.typ.Underlying().(*types.Basic); !ok || b.Info()&types.IsBoolean == 0 {
		panic("spec: clause is not boolean: " + src)
	}
	return v.term
}

func boolVal(t string) Val { return Val{term: t, typ: types.Typ[types.Bool]} }

func outerParens(s string) bool {
	if len(s) < 2 || s[0] != '(' || s[len(s)-1] != ')' {
		return false
	}
	depth := 0
	for i := 0; i < len(s); i++ {
		switch s[i] {
		case '(':
			depth++
		case ')':
			depth--
			if depth == 0 && i != len(s)-1 {
				return false
			}
		}
	}
	return true
}

func (se *specEnv) child(names map[string]Val) *specEnv {
	return &specEnv{f: se.f, pkg: se.pkg, st: se.st, pre: se.pre, names: names, noLocal: se.noLocal, closed: se.closed, localsFrom: se.localsFrom}
}

func (se *specEnv) evalTop(src string) Val {
	src = strings.TrimSpace(src)
	for _, q := range []string{"forall", "exists"} {
		if strings.HasPrefix(src, q+" ") {
			hdr, body, ok := splitTop(src[len(q)+1:], "::")
			if !ok {
				panic("bad quantifier: " + src)
			}
			trig := ""
			if i := strings.Index(hdr, "{"); i >= 0 {
				trig = strings.TrimSpace(hdr[i+1 : strings.LastIndex(hdr, "}")])
				hdr = hdr[:i]
			}
			parts := strings.Fields(hdr)
			if len(parts) != 2 {
				panic("bad quantifier header: " + hdr)
			}
			name, tname := parts[0], parts[1]
			t := se.typeByName(tname)
			e := se.f.e
			qv := "q_" + name
			names := map[string]Val{}
			for k, v := range se.names {
				names[k] = v
			}
			names[name] = Val{term: qv, typ: t}
			inner := se.child(names)
			b := inner.evalTop(body)
			bt := b.term
			// a quantified Go integer ranges over its type
			if e.sc.arith == "int" && isInt(t) {
				w, sg := e.width(t)
				lo, hi := "0", pow2(w)
				if sg {
					lo, hi = "(- "+pow2(w-1)+")", pow2(w-1)
				}
				rng := fmt.Sprintf("(and (<= %s %s) (< %s %s))", lo, qv, qv, hi)
				if q == "forall" {
					bt = fmt.Sprintf("(=> %s %s)", rng, bt)
				} else {
					bt = fmt.Sprintf("(and %s %s)", rng, bt)
				}
			}
			if trig != "" {
				var pats []string
				for _, tsrc := range strings.Split(trig, ";") {
					pats = append(pats, ":pattern ("+inner.evalAny(tsrc).term+")")
				}
				return boolVal(fmt.Sprintf("(%s ((%s %s)) (! %s %s))", q, qv, e.sc.sortOf(t), bt, strings.Join(pats, " ")))
			}
			return boolVal(fmt.Sprintf("(%s ((%s %s)) %s)", q, qv, e.sc.sortOf(t), bt))
		}
	}
	if l, r, ok := splitTop(src, "<==>"); ok {
		a, b := se.evalTop(l), se.evalTop(r)
		return boolVal(fmt.Sprintf("(= %s %s)", a.term, b.term))
	}
	if l, r, ok := splitTop(src, "==>"); ok {
		a := se.evalTop(l)
		b := se.evalTop(r)
		return boolVal(fmt.Sprintf("(=> %s %s)", a.term, b.term))
	}
	if strings.Contains(src, "==>") || strings.Contains(src, "forall ") || strings.Contains(src, "exists ") {
		if ps := splitAllTop(src, "||"); len(ps) > 1 {
			var ts []string
			for _, p := range ps {
				ts = append(ts, se.evalTop(p).term)
			}
			return boolVal("(or " + strings.Join(ts, " ") + ")")
		}
		if ps := splitAllTop(src, "&&"); len(ps) > 1 {
			var ts []string
			for _, p := range ps {
				ts = append(ts, se.evalTop(p).term)
			}
			return boolVal("(and " + strings.Join(ts, " ") + ")")
		}
		if outerParens(src) {
			return se.evalTop(src[1 : len(src)-1])
		}
		if strings.HasPrefix(src, "!") && outerParens(strings.TrimSpace(src[1:])) {
			return boolVal("(not " + se.evalTop(strings.TrimSpace(src[1:])).term + ")")
		}
	}
	return se.evalAny(src)
}

func (se *specEnv) evalAny(src string) Val {
	ex, err := parser.ParseExpr(src)
	if err != nil {
		panic(fmt.Sprintf("spec parse error in %q: %v", src, err))
	}
	return se.eval(ex)
}

func (se *specEnv) typeByName(name string) types.Type {
	if obj := types.Universe.Lookup(name); obj != nil {
		if tn, ok := obj.(*types.TypeName); ok {
			return tn.Type()
		}
	}
	ex, err := parser.ParseExpr(name)
	if err != nil {
		panic("spec: bad type " + name)
	}
	return se.lookupType(ex)
}

func (se *specEnv) lookupObj(x ast.Expr) types.Object {
	switch n := x.(type) {
	case *ast.Ident:
		if se.pkg != nil {
			if obj := se.pkg.Scope().Lookup(n.Name); obj != nil {
				return obj
			}
		}
		if obj := types.Universe.Lookup(n.Name); obj != nil {
			return obj
		}
		// an unqualified exported name of a directly imported module package
		// (type-derived clauses print type names without their package)
		if se.pkg != nil && token.IsExported(n.Name) {
			for _, imp := range se.pkg.Imports() {
				if strings.HasPrefix(imp.Path(), modulePrefix) {
					if obj := imp.Scope().Lookup(n.Name); obj != nil {
						return obj
					}
				}
			}
		}
		return nil
	case *ast.SelectorExpr:
		id, ok := n.X.(*ast.Ident)
		if !ok || se.pkg == nil {
			return nil
		}
		for _, imp := range se.allPkgs() {
			if imp.Name() == id.Name {
				if obj := imp.Scope().Lookup(n.Sel.Name); obj != nil {
					return obj
				}
			}
		}
	}
	return nil
}

// allPkgs lists the packages a contract may name: the imports of the
// function's package first, then every package of the program.
func (se *specEnv) allPkgs() []*types.Package {
	out := append([]*types.Package{}, se.pkg.Imports()...)
	for _, p := range se.f.e.prog.AllPackages() {
		out = append(out, p.Pkg)
	}
	return out
}

func (se *specEnv) lookupType(x ast.Expr) types.Type {
	if st, ok := x.(*ast.StarExpr); ok {
		return types.NewPointer(se.lookupType(st.X))
	}
	obj := se.lookupObj(x)
	if tn, ok := obj.(*types.TypeName); ok {
		return tn.Type()
	}
	panic(fmt.Sprintf("spec: unknown type %s", exprString(x)))
}

func exprString(x ast.Expr) string {
	switch n := x.(type) {
	case *ast.Ident:
		return n.Name
	case *ast.SelectorExpr:
		return exprString(n.X) + "." + n.Sel.Name
	case *ast.StarExpr:
		return "*" + exprString(n.X)
	}
	return fmt.Sprintf("%T", x)
}

var untypedInt = types.Typ[types.UntypedInt]

var float16T = types.NewNamed(types.NewTypeName(0, nil, "float16", nil), types.NewStruct(nil, nil), nil)

func (se *specEnv) coerce(v Val, to types.Type) Val {
	if v.typ == untypedInt {
		if isInt(to) {
			c := constant.MakeFromLiteral(v.term, token.INT, 0)
			return Val{term: se.f.e.constTerm(c, to), typ: to}
		}
		if _, _, ok := fpParams(to); ok {
			c := constant.MakeFromLiteral(v.term, token.INT, 0)
			return Val{term: se.f.e.constTerm(c, to), typ: to}
		}
	}
	if v.typ == types.Typ[types.UntypedFloat] {
		if _, _, ok := fpParams(to); ok {
			txt, neg := v.term, false
			if strings.HasPrefix(txt, "-") {
				txt, neg = txt[1:], true
			}
			c := constant.MakeFromLiteral(txt, token.FLOAT, 0)
			if neg {
				c = constant.UnaryOp(token.SUB, c, 0)
			}
			return Val{term: se.f.e.constTerm(c, to), typ: to}
		}
	}
	return v
}

func isUntyped(t types.Type) bool {
	return t == untypedInt || t == types.Typ[types.UntypedFloat]
}

func (se *specEnv) unify(a, b Val) (Val, Val) {
	if isUntyped(a.typ) && !isUntyped(b.typ) && b.typ != types.Typ[types.UntypedNil] {
		return se.coerce(a, b.typ), b
	}
	if isUntyped(b.typ) && !isUntyped(a.typ) && a.typ != types.Typ[types.UntypedNil] {
		return a, se.coerce(b, a.typ)
	}
	if a.typ == types.Typ[types.UntypedNil] {
		return Val{term: se.f.e.sc.zero(b.typ), typ: b.typ}, b
	}
	if b.typ == types.Typ[types.UntypedNil] {
		return a, Val{term: se.f.e.sc.zero(a.typ), typ: a.typ}
	}
	if a.typ == untypedInt && b.typ == untypedInt {
		return se.coerce(a, types.Typ[types.Int]), se.coerce(b, types.Typ[types.Int])
	}
	if isUntyped(a.typ) && isUntyped(b.typ) {
		return se.coerce(a, types.Typ[types.Float64]), se.coerce(b, types.Typ[types.Float64])
	}
	return a, b
}

func (se *specEnv) fieldOf(base Val, name string) Val {
	e := se.f.e
	bt := base.typ
	isPtr := false
	if pt, ok := bt.Underlying().(*types.Pointer); ok {
		bt = pt.Elem()
		isPtr = true
	}
	stT, ok := bt.Underlying().(*types.Struct)
	if !ok {
		panic("spec: selector ." + name + " on non-struct " + bt.String())
	}
	for i := 0; i < stT.NumFields(); i++ {
		if stT.Field(i).Name() == name {
			ft := stT.Field(i).Type()
			if isPtr {
				a := se.f.asAddr(base)
				na := &Addr{cell: a.cell, cellT: a.cellT, backing: a.backing, path: append(append([]step{}, a.path...), step{field: i, typ: ft})}
				r := Val{term: e.load(se.st, na), typ: ft}
				e.assumeRangeDeep("true", r, 1)
				e.assumePre(na, ft)
				return r
			}
			r := Val{term: fmt.Sprintf("(%s_f%d %s)", e.sc.sortOf(bt), i, base.term), typ: ft}
			e.assumeRangeDeep("true", r, 1)
			return r
		}
	}
	// promoted fields through embedded structs
	for i := 0; i < stT.NumFields(); i++ {
		if stT.Field(i).Embedded() {
			func() {
				defer func() { recover() }()
				inner := se.fieldOf(base, stT.Field(i).Name())
				r := se.fieldOf(inner, name)
				panic(foundField{r})
			}()
		}
	}
	panic("spec: no field " + name + " in " + bt.String())
}

type foundField struct{ v Val }

func (se *specEnv) eval(x ast.Expr) (out Val) {
	defer func() {
		if r := recover(); r != nil {
			if ff, ok := r.(foundField); ok {
				out = ff.v
				return
			}
			panic(r)
		}
	}()
	e := se.f.e
	switch n := x.(type) {
	case *ast.ParenExpr:
		return se.eval(n.X)
	case *ast.BasicLit:
		switch n.Kind {
		case token.INT:
			c := constant.MakeFromLiteral(n.Value, token.INT, 0)
			return Val{term: c.ExactString(), typ: untypedInt}
		case token.FLOAT:
			return Val{term: n.Value, typ: types.Typ[types.UntypedFloat]}
		case token.STRING:
			s, err := strconv.Unquote(n.Value)
			if err != nil {
				panic("spec: bad string literal " + n.Value)
			}
			return Val{term: e.strLit(s), typ: types.Typ[types.String], lit: &s}
		case token.CHAR:
			c := constant.MakeFromLiteral(n.Value, token.CHAR, 0)
			return Val{term: c.ExactString(), typ: untypedInt}
		}
	case *ast.Ident:
		switch n.Name {
		case "true", "false":
			return boolVal(n.Name)
		case "nil":
			return Val{term: "0", typ: types.Typ[types.UntypedNil]}
		}
		if v, ok := se.names[n.Name]; ok {
			return v
		}
		if strings.HasPrefix(n.Name, "ssa_") {
			// an SSA register named by generated (type-derived) clauses
			for sv, val := range se.f.vals {
				if sv.Name() == n.Name[4:] {
					return val
				}
			}
			panic("spec: unknown name " + n.Name)
		}
		// a local that lives in a cell denotes the cell's current content (value
		// DebugRefs of such a variable are snapshots taken at earlier reads)
		if se.noLocal && se.localsFrom != nil {
			if v, ok := se.f.lookupNameFrom("&"+n.Name, se.localsFrom); ok {
				a := se.f.asAddr(v)
				return Val{term: e.load(se.st, a), typ: v.typ.Underlying().(*types.Pointer).Elem()}
			}
			if v, ok := se.f.lookupNameFrom(n.Name, se.localsFrom); ok {
				return v
			}
		}
		if v, ok := se.f.lookupName("&" + n.Name); ok && !se.noLocal {
			a := se.f.asAddr(v)
			return Val{term: e.load(se.st, a), typ: v.typ.Underlying().(*types.Pointer).Elem()}
		}
		if v, ok := se.f.lookupName(n.Name); ok && !se.noLocal {
			return v
		}
		if v, ok := se.f.params[n.Name]; ok && !se.closed {
			return v
		}
		if c, ok := se.lookupObj(n).(*types.Const); ok {
			return se.constVal(c)
		}
		panic("spec: unknown name " + n.Name)
	case *ast.UnaryExpr:
		v := se.eval(n.X)
		switch n.Op {
		case token.NOT:
			return boolVal(fmt.Sprintf("(not %s)", v.term))
		case token.SUB:
			if v.typ == untypedInt || v.typ == types.Typ[types.UntypedFloat] {
				if strings.HasPrefix(v.term, "-") {
					return Val{term: v.term[1:], typ: v.typ}
				}
				return Val{term: "-" + v.term, typ: v.typ}
			}
			if _, _, ok := fpParams(v.typ); ok {
				return Val{term: fmt.Sprintf("(fp.neg %s)", v.term), typ: v.typ}
			}
			if e.sc.arith == "int" {
				return Val{term: fmt.Sprintf("(- %s)", v.term), typ: v.typ}
			}
			return Val{term: fmt.Sprintf("(bvneg %s)", v.term), typ: v.typ}
		case token.XOR:
			if e.sc.arith == "bv" {
				return Val{term: fmt.Sprintf("(bvnot %s)", v.term), typ: v.typ}
			}
		}
	case *ast.BinaryExpr:
		a, b := se.eval(n.X), se.eval(n.Y)
		switch n.Op {
		case token.LAND:
			return boolVal(fmt.Sprintf("(and %s %s)", a.term, b.term))
		case token.LOR:
			return boolVal(fmt.Sprintf("(or %s %s)", a.term, b.term))
		}
		if n.Op == token.SHL || n.Op == token.SHR {
			if a.typ == untypedInt {
				a = se.coerce(a, types.Typ[types.Int])
			}
			if b.typ == untypedInt {
				b = se.coerce(b, types.Typ[types.Uint])
			}
			return Val{term: e.binop(n.Op, a.term, b.term, a.typ, b.typ), typ: a.typ}
		}
		a, b = se.unify(a, b)
		if isString(a.typ) {
			switch n.Op {
			case token.EQL:
				return boolVal(e.strEq(a, b))
			case token.NEQ:
				return boolVal("(not " + e.strEq(a, b) + ")")
			}
			panic("spec: string operator " + n.Op.String())
		}
		rt := a.typ
		switch n.Op {
		case token.EQL, token.NEQ, token.LSS, token.LEQ, token.GTR, token.GEQ:
			rt = types.Typ[types.Bool]
		}
		if a.typ == float16T {
			switch n.Op {
			case token.EQL:
				// bit-for-bit identity up to NaN: (= a b) on FloatingPoint terms
				return boolVal(fmt.Sprintf("(= %s %s)", a.term, b.term))
			case token.NEQ:
				return boolVal(fmt.Sprintf("(not (= %s %s))", a.term, b.term))
			}
		}
		return Val{term: e.binop(n.Op, a.term, b.term, a.typ, b.typ), typ: rt}
	case *ast.StarExpr:
		p := se.eval(n.X)
		a := se.f.asAddr(p)
		return Val{term: e.load(se.st, a), typ: p.typ.Underlying().(*types.Pointer).Elem()}
	case *ast.SelectorExpr:
		// qualified constant (ir.BinaryModulo)?
		if id, ok := n.X.(*ast.Ident); ok {
			_, isParam := se.f.params[id.Name]
			if _, isLocal := se.names[id.Name]; !isLocal && !isParam {
				if _, isLocal2 := se.f.lookupName(id.Name); !isLocal2 {
					if c, ok := se.lookupObj(n).(*types.Const); ok {
						return se.constVal(c)
					}
				}
			}
		}
		base := se.eval(n.X)
		return se.fieldOf(base, n.Sel.Name)
	case *ast.IndexExpr:
		base := se.eval(n.X)
		if mt, ok := base.typ.Underlying().(*types.Map); ok {
			k := se.coerce(se.eval(n.Index), mt.Key())
			_, val, ok := e.mapGet(se.st, base, k.term)
			if !ok {
				panic("spec: content of " + base.typ.String() + " is not modelled")
			}
			return Val{term: val, typ: mt.Elem()}
		}
		idx := se.coerce(se.eval(n.Index), types.Typ[types.Int])
		it := e.toIdx(idx)
		switch bt := base.typ.Underlying().(type) {
		case *types.Slice:
			h := e.heapTerm(se.st, bt.Elem(), true)
			return Val{term: fmt.Sprintf("(select (select %s (s_base %s)) %s)", h, base.term, e.idxAdd(fmt.Sprintf("(s_off %s)", base.term), it)), typ: bt.Elem()}
		case *types.Array:
			return Val{term: fmt.Sprintf("(select %s %s)", base.term, it), typ: bt.Elem()}
		case *types.Basic:
			if isString(base.typ) {
				return Val{term: e.strAt(base.term, it), typ: types.Typ[types.Uint8]}
			}
		case *types.Pointer:
			if at, ok := bt.Elem().Underlying().(*types.Array); ok {
				a := se.f.asAddr(base)
				na := &Addr{cell: a.cell, cellT: a.cellT, backing: a.backing, path: append(append([]step{}, a.path...), step{isIndex: true, index: it, typ: at.Elem()})}
				return Val{term: e.load(se.st, na), typ: at.Elem()}
			}
		}
		panic("spec: index on " + base.typ.String())
	case *ast.SliceExpr:
		base := se.eval(n.X)
		lo := e.idxLit(0)
		if n.Low != nil {
			lo = e.toIdx(se.coerce(se.eval(n.Low), types.Typ[types.Int]))
		}
		hi := fmt.Sprintf("(s_len %s)", base.term)
		if n.High != nil {
			hi = e.toIdx(se.coerce(se.eval(n.High), types.Typ[types.Int]))
		}
		return Val{term: fmt.Sprintf("(mk_slice (s_base %s) %s %s %s)", base.term, e.idxAdd(fmt.Sprintf("(s_off %s)", base.term), lo), e.idxSub(hi, lo), e.idxSub(hi, lo)), typ: base.typ}
	case *ast.TypeAssertExpr:
		v := se.eval(n.X)
		t := se.lookupType(n.Type)
		isort := e.sc.sortOf(v.typ)
		if isort == "Int" {
			panic("spec: type assertion on open-world interface")
		}
		se.checkImpl(isort, t)
		box := e.sc.boxName(isort, t)
		return Val{term: fmt.Sprintf("(%s_v %s)", box, v.term), typ: t}
	case *ast.CallExpr:
		return se.evalCall(n)
	}
	panic(fmt.Sprintf("spec: unsupported expression %T", x))
}

func (se *specEnv) checkImpl(isort string, t types.Type) {
	for _, c := range se.f.e.sc.ifaceImpl[isort] {
		if types.Identical(c, t) {
			return
		}
	}
	panic("spec: " + t.String() + " does not implement the interface")
}

func (se *specEnv) constVal(c *types.Const) Val {
	t := c.Type()
	if b, ok := t.Underlying().(*types.Basic); ok && b.Info()&types.IsUntyped != 0 {
		if b.Kind() == types.UntypedInt || b.Kind() == types.UntypedRune {
			return Val{term: c.Val().ExactString(), typ: untypedInt}
		}
		if b.Kind() == types.UntypedString {
			s := constant.StringVal(c.Val())
			return Val{term: se.f.e.strLit(s), typ: types.Typ[types.String], lit: &s}
		}
		if b.Kind() == types.UntypedBool {
			return boolVal(fmt.Sprint(constant.BoolVal(c.Val())))
		}
		panic("spec: untyped constant " + c.Name())
	}
	if isString(t) {
		s := constant.StringVal(c.Val())
		return Val{term: se.f.e.strLit(s), typ: t, lit: &s}
	}
	return Val{term: se.f.e.constTerm(c.Val(), t), typ: t}
}

func (se *specEnv) evalCall(n *ast.CallExpr) Val {
	e := se.f.e
	arg := func(i int) Val { return se.eval(n.Args[i]) }
	if id, ok := n.Fun.(*ast.Ident); ok {
		switch id.Name {
		case "ite":
			c := arg(0)
			a, b := se.unify(arg(1), arg(2))
			return Val{term: fmt.Sprintf("(ite %s %s %s)", c.term, a.term, b.term), typ: a.typ}
		case "valid": // pointer is nil or a pre-existing location
			v := arg(0)
			return boolVal(fmt.Sprintf("(and (>= %s 0) (< %s alloc0))", v.term, v.term))
		case "fresh": // pointer/slice base allocated during the call
			v := arg(0)
			loc := v.term
			if _, ok := v.typ.Underlying().(*types.Slice); ok {
				loc = fmt.Sprintf("(s_base %s)", v.term)
			}
			if e.freshLo != "" {
				// a callee's post-condition assumed at a call site: allocated during
				// that call, i.e. after everything the caller allocated before it and
				// before everything it allocates afterwards
				return boolVal(fmt.Sprintf("(and (> %s %s) (< %s %s))", loc, e.freshLo, loc, e.freshHi))
			}
			return boolVal(fmt.Sprintf("(> %s alloc0)", loc))
		case "base": // identity of a slice's backing array
			v := arg(0)
			return Val{term: fmt.Sprintf("(s_base %s)", v.term), typ: types.Typ[types.UnsafePointer]}
		case "off":
			v := arg(0)
			return Val{term: fmt.Sprintf("(s_off %s)", v.term), typ: types.Typ[types.Int]}
		case "isnan":
			return boolVal(fmt.Sprintf("(fp.isNaN %s)", arg(0).term))
		case "isinf":
			return boolVal(fmt.Sprintf("(fp.isInfinite %s)", arg(0).term))
		case "fpeq": // IEEE equality (+0 == -0, NaN != NaN)
			a, b := se.unify(arg(0), arg(1))
			return boolVal(fmt.Sprintf("(fp.eq %s %s)", a.term, b.term))
		case "same": // identical value (distinguishes +0/-0, all NaNs equal)
			a, b := se.unify(arg(0), arg(1))
			return boolVal(fmt.Sprintf("(= %s %s)", a.term, b.term))
		case "tohalf": // float32/64 -> float16, round to nearest even
			return Val{term: fmt.Sprintf("((_ to_fp 5 11) RNE %s)", arg(0).term), typ: float16T}
		case "fromhalfbits":
			v := se.coerce(arg(0), types.Typ[types.Uint16])
			return Val{term: fmt.Sprintf("((_ to_fp 5 11) %s)", v.term), typ: float16T}
		case "halftof32":
			return Val{term: fmt.Sprintf("((_ to_fp 8 24) RNE %s)", arg(0).term), typ: types.Typ[types.Float32]}
		case "halftof64":
			return Val{term: fmt.Sprintf("((_ to_fp 11 53) RNE %s)", arg(0).term), typ: types.Typ[types.Float64]}
		case "f32frombits":
			v := se.coerce(arg(0), types.Typ[types.Uint32])
			return Val{term: fmt.Sprintf("((_ to_fp 8 24) %s)", v.term), typ: types.Typ[types.Float32]}
		case "f64frombits":
			v := se.coerce(arg(0), types.Typ[types.Uint64])
			return Val{term: fmt.Sprintf("((_ to_fp 11 53) %s)", v.term), typ: types.Typ[types.Float64]}
		case "fptrunc", "fpfloor", "fpceil", "fpabs", "fpsqrt":
			op := map[string]string{"fptrunc": "fp.roundToIntegral RTZ", "fpfloor": "fp.roundToIntegral RTN", "fpceil": "fp.roundToIntegral RTP", "fpabs": "fp.abs", "fpsqrt": "fp.sqrt RNE"}[id.Name]
			v := arg(0)
			return Val{term: fmt.Sprintf("(%s %s)", op, v.term), typ: v.typ}
		case "is":
			v := arg(0)
			t := se.lookupType(n.Args[1])
			isort := e.sc.sortOf(v.typ)
			if isort == "Int" {
				panic("spec: is() on open-world interface")
			}
			se.checkImpl(isort, t)
			return boolVal(fmt.Sprintf("((_ is %s) %s)", e.sc.boxName(isort, t), v.term))
		case "isnil": // nil interface value
			v := arg(0)
			return boolVal(fmt.Sprintf("(= %s %s)", v.term, e.sc.zero(v.typ)))
		case "len":
			v := arg(0)
			switch u := v.typ.Underlying().(type) {
			case *types.Array:
				return Val{term: e.idxLit(u.Len()), typ: types.Typ[types.Int]}
			case *types.Map:
				return Val{term: e.mapLen(se.st, v.term), typ: types.Typ[types.Int]}
			}
			return Val{term: fmt.Sprintf("(s_len %s)", v.term), typ: types.Typ[types.Int]}
		case "cap":
			return Val{term: fmt.Sprintf("(s_cap %s)", arg(0).term), typ: types.Typ[types.Int]}
		case "old":
			if se.pre == nil {
				panic("old() without pre-state")
			}
			// inside old(), a parameter name denotes the entry value even when a
			// loop-carried variable of the same name shadows it
			names := map[string]Val{}
			for k, v := range se.names {
				names[k] = v
			}
			for k, v := range se.f.params {
				names[k] = v
			}
			o := &specEnv{f: se.f, pkg: se.pkg, st: se.pre, pre: se.pre, names: names, noLocal: true, closed: se.closed}
			return o.eval(n.Args[0])
		case "prev": // value at the header of the enclosing loop
			hi := se.f.prevHdr
			if hi == nil {
				for b := se.f.cur; b != nil && hi == nil; b = b.Idom() {
					hi = se.f.hdrs[b.Index]
				}
			}
			if hi == nil {
				panic("prev() outside a loop")
			}
			names := map[string]Val{}
			for k, v := range se.names {
				names[k] = v
			}
			for k, v := range hi.phiEnv {
				names[k] = v
			}
			o := se.child(names)
			o.st = hi.st
			o.noLocal = true
			// locals defined before the loop keep their meaning inside prev()
			if hi.blk != nil {
				o.localsFrom = hi.blk.Idom()
			}
			return o.eval(n.Args[0])
		case "oldelem": // element j of the slice header s (evaluated now), read from the entry-state heap
			sv := arg(0)
			sl, ok := sv.typ.Underlying().(*types.Slice)
			if !ok {
				panic("spec: oldelem on non-slice")
			}
			idx := se.coerce(arg(1), types.Typ[types.Int])
			h := e.heapTerm(se.pre, sl.Elem(), true)
			return Val{term: fmt.Sprintf("(select (select %s (s_base %s)) %s)", h, sv.term, e.idxAdd(fmt.Sprintf("(s_off %s)", sv.term), e.toIdx(idx))), typ: sl.Elem()}
		case "anyblock": // a source-level local defined in a block that need not dominate this point:
			// the unique SSA value carrying that name; on paths that did not execute its
			// definition it is an unconstrained value, so the clause must hold for all of them
			nm, ok := n.Args[0].(*ast.Ident)
			if !ok {
				panic("spec: anyblock needs a local's name")
			}
			var found *Val
			for i := range se.f.defs {
				d := &se.f.defs[i]
				if d.name != nm.Name {
					continue
				}
				if found != nil && found.term != d.val.term {
					panic("spec: anyblock(" + nm.Name + ") is ambiguous")
				}
				found = &d.val
			}
			if found == nil {
				panic("spec: unknown name " + nm.Name)
			}
			return *found
		case "isfunc": // isfunc(v, "pkg.Name"): the function value v is that function (decided on the SSA)
			v := arg(0)
			lit, ok := n.Args[1].(*ast.BasicLit)
			if !ok {
				panic("spec: isfunc needs a quoted function name")
			}
			want, _ := strconv.Unquote(lit.Value)
			if v.clo != nil && v.clo.fn != nil {
				got := v.clo.fn.String()
				return boolVal(fmt.Sprint(got == want || strings.HasSuffix(got, "."+want) || strings.HasSuffix(got, "/"+want)))
			}
			// not a statically known function value: nothing can be concluded
			return Val{term: e.declare("isfunc", "Bool"), typ: types.Typ[types.Bool]}
		case "has": // has(m, k): key k is present in map m
			m := arg(0)
			mt, ok := m.typ.Underlying().(*types.Map)
			if !ok {
				panic("spec: has() on non-map")
			}
			k := se.coerce(arg(1), mt.Key())
			present, _, ok := e.mapGet(se.st, m, k.term)
			if !ok {
				panic("spec: content of " + m.typ.String() + " is not modelled")
			}
			return boolVal(present)
		case "wf": // well-formed slice or string header
			return boolVal(e.wfSlice(arg(0).term))
		case "bv2nat", "nat": // unsigned value of an integer as int (for mixed-width arithmetic in bv mode)
			v := arg(0)
			return Val{term: e.convert(v.term, v.typ, types.Typ[types.Int]), typ: types.Typ[types.Int]}
		}
		if obj := se.lookupObj(id); obj != nil {
			if tn, ok := obj.(*types.TypeName); ok {
				v := arg(0)
				if isUntyped(v.typ) {
					return se.coerce(v, tn.Type())
				}
				if v.typ == types.Typ[types.UntypedNil] {
					return Val{term: e.sc.zero(tn.Type()), typ: tn.Type()}
				}
				return Val{term: e.convert(v.term, v.typ, tn.Type()), typ: tn.Type()}
			}
		}
		// a function-typed parameter modelled as a pure function
		if pv, ok := se.names[id.Name]; ok && pv.uf != "" || !ok && se.f.params[id.Name].uf != "" && !se.closed {
			if !ok {
				pv = se.f.params[id.Name]
			}
			sig := pv.typ.Underlying().(*types.Signature)
			var as []string
			for i := range n.Args {
				as = append(as, se.coerce(arg(i), sig.Params().At(i).Type()).term)
			}
			return Val{term: "(" + pv.uf + " " + strings.Join(as, " ") + ")", typ: sig.Results().At(0).Type()}
		}
		if rc := se.f.rootCtr(); rc != nil {
			for _, g := range rc.GhostCalls {
				if g == id.Name {
					n := "G_" + g
					if _, ok := e.hsort[n]; !ok {
						panic("ghost set " + g + " is never written")
					}
					return boolVal(fmt.Sprintf("(select %s %s)", e.heapByName(se.st, n), arg(0).term))
				}
			}
			for _, g := range rc.Callbacks {
				if g == id.Name {
					n := "G_" + g
					return boolVal(fmt.Sprintf("(select %s %s)", e.heapByName(se.st, n), arg(0).term))
				}
			}
			if sig, ok := rc.Funs[id.Name]; ok {
				var as []string
				for _, a := range n.Args {
					as = append(as, se.coerce(se.eval(a), types.Typ[types.Int]).term)
				}
				rt := types.Type(types.Typ[types.Int])
				if strings.HasSuffix(strings.TrimSpace(sig), "Bool") {
					rt = types.Typ[types.Bool]
				}
				return Val{term: fmt.Sprintf("(%s %s)", id.Name, strings.Join(as, " ")), typ: rt}
			}
		}
		// a function declared `functional` in its contract may be named in clauses:
		// it denotes the uninterpreted function that summarises its calls
		for key, c := range e.contracts {
			if c.Functional && (c.Fn == id.Name || strings.HasSuffix(c.Fn, ")."+id.Name)) && se.pkg != nil && c.Pkg == se.pkg.Path() {
				var callee *ssa.Function
				for fn2 := range e.fnByKey(key) {
					callee = fn2
				}
				if callee == nil {
					break
				}
				sym := "uff_" + mangle(shortFn(callee))
				var as, ss []string
				for i := range n.Args {
					a := se.coerce(arg(i), callee.Params[i].Type())
					as = append(as, a.term)
					ss = append(ss, e.sc.sortOf(callee.Params[i].Type()))
				}
				rt := callee.Signature.Results().At(0).Type()
				if !e.declared[sym] {
					e.declared[sym] = true
					e.decls = append(e.decls, fmt.Sprintf("(declare-fun %s (%s) %s)", sym, strings.Join(ss, " "), e.sc.sortOf(rt)))
					e.noteAssumed("functional: the result of " + shortFn(callee) + " depends only on its arguments")
				}
				return Val{term: "(" + sym + " " + strings.Join(as, " ") + ")", typ: rt}
			}
		}
		if pd, ok := e.preds[id.Name]; ok {
			if len(pd.params) != len(n.Args) {
				panic("spec: wrong number of arguments to " + id.Name)
			}
			names := map[string]Val{}
			for i, p := range pd.params {
				names[p] = se.eval(n.Args[i])
			}
			// names that the macro body does not bind resolve in the caller's scope
			for k, v := range se.names {
				if _, ok := names[k]; !ok {
					names[k] = v
				}
			}
			if pd.sum {
				return se.ghostSum(id.Name, pd, names)
			}
			revealed := !pd.opaque
			if rc := se.f.rootCtr(); rc != nil && pd.opaque {
				for _, r := range rc.Reveal {
					if r == id.Name {
						revealed = true
					}
				}
			}
			if revealed {
				return se.child(names).evalTopAny(pd.body)
			}
			// opaque: an uninterpreted predicate of the argument values and of the
			// current value of every heap its body reads
			saveLog := e.readLog
			e.readLog = map[string]bool{}
			nd := len(e.decls)
			func() {
				defer func() { recover() }()
				se.child(names).evalTopAny(pd.body)
			}()
			reads := sortedKeys(e.readLog)
			e.readLog = saveLog
			if saveLog != nil {
				for _, r := range reads {
					saveLog[r] = true
				}
			}
			// drop the assumptions made while scanning the body (they may mention bound variables' junk)
			keep := e.decls[:nd]
			for _, d := range e.decls[nd:] {
				if !strings.HasPrefix(d, "(assert ") {
					keep = append(keep, d)
				}
			}
			e.decls = keep
			var argTerms, argSorts []string
			for _, p := range pd.params {
				argTerms = append(argTerms, names[p].term)
				argSorts = append(argSorts, e.sc.sortOf(names[p].typ))
			}
			for _, r := range reads {
				argTerms = append(argTerms, e.heapByName(se.st, r))
				argSorts = append(argSorts, e.hsort[r])
			}
			sym := "opq_" + id.Name
			sig := "(" + strings.Join(argSorts, " ") + ") Bool"
			if e.opaqueSig == nil {
				e.opaqueSig = map[string]string{}
			}
			if old, ok := e.opaqueSig[sym]; !ok {
				e.opaqueSig[sym] = sig
				e.decls = append(e.decls, fmt.Sprintf("(declare-fun %s %s)", sym, sig))
				e.declared[sym] = true
			} else if old != sig {
				panic("opaque predicate " + id.Name + " used at two different signatures")
			}
			return boolVal("(" + sym + " " + strings.Join(argTerms, " ") + ")")
		}
		panic("spec: unknown function " + id.Name)
	}
	// conversion to a qualified type: ir.ScalarKind(x)
	if obj := se.lookupObj(n.Fun); obj != nil {
		if tn, ok := obj.(*types.TypeName); ok {
			v := arg(0)
			if isUntyped(v.typ) {
				return se.coerce(v, tn.Type())
			}
			return Val{term: e.convert(v.term, v.typ, tn.Type()), typ: tn.Type()}
		}
	}
	panic("spec: unsupported call")
}

// evalTopAny evaluates a macro body, which may be boolean (with ==> etc.) or a term.
func (se *specEnv) evalTopAny(src string) Val {
	return se.evalTop(src)
}

// ghostSum evaluates NAME(s, k) for a prefix-sum ghost function: an
// uninterpreted function of the slice value, the heaps the summand reads and
// the index, with its two defining axioms emitted once per (slice, heaps).
func (se *specEnv) ghostSum(name string, pd predDef, names map[string]Val) Val {
	e := se.f.e
	if e.sc.arith != "int" {
		panic("ghostsum " + name + " needs mode int")
	}
	sv, kv := names[pd.params[0]], names[pd.params[1]]
	if _, ok := sv.typ.Underlying().(*types.Slice); !ok {
		panic("ghostsum " + name + ": first argument is not a slice")
	}
	kv = se.coerce(kv, types.Typ[types.Int])
	// which heaps does the summand read?
	saveLog := e.readLog
	e.readLog = map[string]bool{}
	nd := len(e.decls)
	probe := map[string]Val{}
	for k, v := range se.names {
		probe[k] = v
	}
	probe[pd.params[0]] = sv
	probe[pd.params[1]] = Val{term: "q_gsprobe", typ: types.Typ[types.Int]}
	func() {
		defer func() { recover() }()
		se.child(probe).evalAny(pd.body)
	}()
	reads := sortedKeys(e.readLog)
	e.readLog = saveLog
	if saveLog != nil {
		for _, r := range reads {
			saveLog[r] = true
		}
	}
	keep := e.decls[:nd]
	for _, d := range e.decls[nd:] {
		if !strings.HasPrefix(d, "(assert ") {
			keep = append(keep, d)
		}
	}
	e.decls = keep
	argTerms := []string{sv.term}
	argSorts := []string{"Slice"}
	for _, r := range reads {
		argTerms = append(argTerms, e.heapByName(se.st, r))
		argSorts = append(argSorts, e.hsort[r])
	}
	sym := "gs_" + name
	sig := "(" + strings.Join(append(append([]string{}, argSorts...), "Int"), " ") + ") Int"
	if e.opaqueSig == nil {
		e.opaqueSig = map[string]string{}
	}
	if old, ok := e.opaqueSig[sym]; !ok {
		e.opaqueSig[sym] = sig
		e.decls = append(e.decls, fmt.Sprintf("(declare-fun %s %s)", sym, sig))
		e.declared[sym] = true
	} else if old != sig {
		panic("ghostsum " + name + " used at two different signatures")
	}
	prefix := "(" + sym + " " + strings.Join(argTerms, " ")
	inst := prefix
	if e.sumInst == nil {
		e.sumInst = map[string]bool{}
	}
	if !e.sumInst[inst] && !strings.Contains(inst, "q_") {
		e.sumInst[inst] = true
		e.noteAssumed("ghost definition (prefix sum): " + name + "(s,0) == 0, " + name + "(s,i+1) == " + name + "(s,i) + " + pd.body)
		body := map[string]Val{}
		for k, v := range se.names {
			body[k] = v
		}
		body[pd.params[0]] = sv
		body[pd.params[1]] = Val{term: "q_gsi", typ: types.Typ[types.Int]}
		summand := se.child(body).evalAny(pd.body)
		summand = se.coerce(summand, types.Typ[types.Int])
		e.decls = append(e.decls, fmt.Sprintf("(assert (= %s 0) 0))", prefix))
		e.decls = append(e.decls, fmt.Sprintf("(assert (forall ((q_gsi Int)) (! (=> (and (<= 0 q_gsi) (< q_gsi (s_len %s))) (= %s (+ q_gsi 1)) (+ %s q_gsi) %s))) :pattern (%s (+ q_gsi 1))))))",
			sv.term, prefix, prefix, summand.term, prefix))
	}
	return Val{term: prefix + " " + kv.term + ")", typ: types.Typ[types.Int]}
}
