package main

import (
	"fmt"
	"go/types"
	"strings"

	"golang.org/x/tools/go/ssa"
)

const modulePrefix = "github.com/gogpu/naga"

func isPutUint(name string) bool {
	return strings.HasSuffix(name, "littleEndian).PutUint32") || strings.HasSuffix(name, "littleEndian).PutUint16") || strings.HasSuffix(name, "littleEndian).PutUint64")
}

func isGetUint(name string) bool {
	return strings.HasSuffix(name, "littleEndian).Uint32") || strings.HasSuffix(name, "littleEndian).Uint16") || strings.HasSuffix(name, "littleEndian).Uint64")
}

// pureStd lists standard-library functions that are assumed not to write any
// memory the verified code can observe; their results are unconstrained unless
// an assumed contract below says more. Every use is reported in the evidence.
func pureStd(name string) bool {
	for _, p := range []string{"strings.", "strconv.", "unicode.", "unicode/utf8.", "math.", "math/bits.", "fmt.Sprintf", "fmt.Errorf", "fmt.Sprint", "errors.New", "(*strings.Builder).String", "(*strings.Builder).Len", "(*bytes.Buffer).Len", "(*bytes.Buffer).Bytes", "sort.SearchInts", "slices.Contains", "(encoding/binary.littleEndian).Uint"} {
		if strings.HasPrefix(name, p) {
			return true
		}
	}
	return false
}

func (f *frame) wouldInline(callee *ssa.Function) bool {
	e := f.e
	if callee.Blocks == nil || callee.Pkg == nil || !strings.HasPrefix(callee.Pkg.Pkg.Path(), modulePrefix) {
		return false
	}
	if callee.Recover != nil {
		return false
	}
	name := callee.String()
	if f.ctr != nil || f.rootCtr() != nil {
		c := f.rootCtr()
		for _, s := range c.NoInline {
			if strings.HasSuffix(name, s) {
				return false
			}
		}
		for _, s := range c.Inline {
			if strings.HasSuffix(name, s) {
				return e.inlineDepth < 6
			}
		}
	}
	return len(backEdges(callee)) == 0 && instrCount(callee) <= 150 && e.inlineDepth < 3
}

func (f *frame) rootCtr() *Contract {
	r := f
	for r.parent != nil {
		r = r.parent
	}
	return r.ctr
}

func (f *frame) doCall(v *ssa.Call, st *State, reach string) {
	e := f.e
	com := v.Call
	if b, ok := com.Value.(*ssa.Builtin); ok {
		f.doBuiltin(v, b, st, reach)
		return
	}
	callee := com.StaticCallee()
	if callee != nil && f.ctr != nil {
		if f.callOrd == nil {
			f.callOrd = map[string]int{}
		}
		f.callOrd[callee.Name()]++
		for suffix, asserts := range f.ctr.CallAsserts {
			// "callee#k" selects the k-th call of callee in the body (source order of go/ssa emission)
			want := 0
			if i := strings.LastIndex(suffix, "#"); i > 0 {
				fmt.Sscan(suffix[i+1:], &want)
				suffix = suffix[:i]
			}
			if want != 0 && want != f.callOrd[callee.Name()] {
				continue
			}
			if shortFn(callee) == suffix || callee.Name() == suffix || strings.HasSuffix(callee.String(), "."+suffix) {
				env := map[string]Val{}
				for i, a := range com.Args {
					env[fmt.Sprintf("arg%d", i)] = f.val(a)
				}
				// variadic ...any arguments (format operands): varargK is the K-th operand
				// as the value it had before it was boxed into an interface
				if n := len(com.Args); n > 0 {
					if sl, ok := com.Args[n-1].(*ssa.Slice); ok {
						if al, ok := sl.X.(*ssa.Alloc); ok && al.Comment == "varargs" && al.Referrers() != nil {
							for _, r := range *al.Referrers() {
								ia, ok := r.(*ssa.IndexAddr)
								if !ok || ia.Referrers() == nil {
									continue
								}
								kc, ok := ia.Index.(*ssa.Const)
								if !ok {
									continue
								}
								for _, r2 := range *ia.Referrers() {
									if stv, ok := r2.(*ssa.Store); ok && stv.Addr == ssa.Value(ia) {
										var ov ssa.Value = stv.Val
										if mi, ok := ov.(*ssa.MakeInterface); ok {
											ov = mi.X
										}
										if _, known := f.vals[ov]; known {
											env[fmt.Sprintf("vararg%d", kc.Int64())] = f.val(ov)
										} else if _, isConst := ov.(*ssa.Const); isConst {
											env[fmt.Sprintf("vararg%d", kc.Int64())] = f.val(ov)
										}
									}
								}
							}
						}
					}
				}
				// clauses that share a label are one obligation (a conjunction) per call site
				var labels []string
				byLabel := map[string][]string{}
				slow := map[string]bool{}
				for _, as := range asserts {
					t, bound := f.evalSpecAtSite(as.Src, st, env)
					if !bound {
						continue // the clause names a local that is not in scope at this site
					}
					if _, ok := byLabel[as.Label]; !ok {
						labels = append(labels, as.Label)
					}
					byLabel[as.Label] = append(byLabel[as.Label], t)
					slow[as.Label] = slow[as.Label] || as.Slow
				}
				for _, l := range labels {
					prop := byLabel[l][0]
					if len(byLabel[l]) > 1 {
						prop = "(and " + strings.Join(byLabel[l], " ") + ")"
					}
					o := e.oblige("at", fmt.Sprintf("%s/at@%s:%s", f.name, callee.Name(), l), "", reach, prop)
					o.Slow = slow[l]
				}
			}
		}
	}
	var args []Val
	for _, a := range com.Args {
		args = append(args, f.val(a))
	}
	if com.IsInvoke() {
		f.havocCall(v, st, reach, "interface method "+com.Method.FullName())
		return
	}
	if _, isB := com.Value.(*ssa.Builtin); !isB {
		if fv, ok := f.vals[com.Value]; ok && fv.uf != "" {
			var as []string
			for _, a := range args {
				as = append(as, a.term)
			}
			rt := v.Call.Signature().Results().At(0).Type()
			f.vals[v] = Val{term: e.define(v.Name(), e.sc.sortOf(rt), "("+fv.uf+" "+strings.Join(as, " ")+")"), typ: rt}
			return
		}
		if fv, ok := f.vals[com.Value]; ok && fv.cb != "" {
			// ghost callback: records its first argument in the ghost set
			n := "G_" + fv.cb
			h := e.heapByName(st, n)
			st.heaps[n] = e.define(n, e.hsort[n], fmt.Sprintf("(store %s %s true)", h, args[0].term))
			f.freshResults(v, reach, false)
			return
		}
	}
	if callee == nil || callee.Blocks != nil && len(callee.FreeVars) > 0 {
		// closure: resolve through the value
		fv := f.val(com.Value)
		if fv.clo != nil && (len(fv.clo.bindings) > 0 || callee == nil) {
			if f.wouldInlineClosure(fv.clo.fn) {
				f.inlineWith(v, fv.clo.fn, args, fv.clo.bindings, st, reach)
				return
			}
			f.havocCall(v, st, reach, "closure "+fv.clo.fn.String())
			return
		}
		if callee == nil {
			f.havocCall(v, st, reach, "dynamic call")
			return
		}
	}
	name := callee.String()
	if rc := f.rootCtr(); rc != nil {
		for cn, set := range rc.GhostCalls {
			if shortFn(callee) == cn || callee.Name() == cn {
				ai := ghostArgIndex(callee, rc.GhostArg[cn])
				if ai >= len(args) {
					panic("ghostcall: " + cn + " has no argument")
				}
				n := "G_" + set
				if _, ok := e.hsort[n]; !ok {
					e.hsort[n] = fmt.Sprintf("(Array %s Bool)", e.sc.sortOf(args[ai].typ))
				}
				h := e.heapByName(st, n)
				st.heaps[n] = e.define(n, e.hsort[n], fmt.Sprintf("(store %s %s true)", h, args[ai].term))
				f.freshResults(v, reach, false)
				return
			}
		}
	}
	if ctr, ok := e.contracts[name]; ok && (ctr.Mode == e.sc.arith || ctr.Mode == "both") && f.pureArgsOK(callee, ctr, args) {
		f.callByContract(v, callee, ctr, args, st, reach)
		return
	}
	if f.stdCall(v, name, args, st, reach) {
		return
	}
	if f.wouldInline(callee) {
		if f.tryInline(v, callee, args, nil, st, reach) {
			return
		}
	}
	if pureStd(name) {
		e.noteAssumed("pure (no observable writes), result unconstrained: " + name)
		f.freshResults(v, reach, strings.HasPrefix(name, "fmt.Errorf") || strings.HasPrefix(name, "errors.New"))
		return
	}
	f.havocCall(v, st, reach, "no contract: "+name)
}

// evalSpecAtSite evaluates a site clause (at-call / at-return). A clause that
// names a source variable which is not in scope at this site does not apply
// there (bound == false); the binding guard in verifyFunc makes sure every
// clause applies somewhere.
func (f *frame) evalSpecAtSite(src string, st *State, env map[string]Val) (term string, bound bool) {
	defer func() {
		if r := recover(); r != nil {
			if s, ok := r.(string); ok && (strings.HasPrefix(s, "spec: ") || strings.HasPrefix(s, "binop ")) {
				// the clause does not type-check at this site (a name is not in scope,
				// or is bound to a value of another type here): it does not apply
				term, bound = "", false
				return
			}
			panic(r)
		}
	}()
	return f.evalSpec(src, st, env, nil), true
}

// pureArgsOK: a contract that models a function-typed parameter as a pure
// function can only be used at a call site whose argument is itself such a
// function symbol; a closure argument makes the caller inline the callee instead.
func (f *frame) pureArgsOK(callee *ssa.Function, ctr *Contract, args []Val) bool {
	for _, pf := range ctr.PureFns {
		for i, p := range callee.Params {
			if p.Name() == pf && i < len(args) && args[i].uf == "" {
				return false
			}
		}
	}
	for cbp := range ctr.Callbacks {
		for i, p := range callee.Params {
			if p.Name() == cbp && i < len(args) && args[i].cb == "" {
				return false
			}
		}
	}
	return true
}

func (f *frame) wouldInlineClosure(fn *ssa.Function) bool {
	return f.e.inlineDepth < 6 && len(backEdges(fn)) == 0 && fn.Recover == nil && fn.Blocks != nil
}

func (e *Engine) noteAssumed(s string) {
	if e.assumedStd == nil {
		e.assumedStd = map[string]bool{}
	}
	e.assumedStd[s] = true
}

func (f *frame) setResult(v *ssa.Call, rs []Val) {
	sig := v.Call.Signature()
	switch sig.Results().Len() {
	case 0:
	case 1:
		f.vals[v] = rs[0]
	default:
		f.setTuple(v, rs)
	}
}

func (f *frame) freshResults(v *ssa.Call, reach string, nonNilErr bool) {
	e := f.e
	sig := v.Call.Signature()
	var rs []Val
	for i := 0; i < sig.Results().Len(); i++ {
		t := sig.Results().At(i).Type()
		r := Val{term: e.declare("res", e.sc.sortOf(t)), typ: t}
		e.assumeRange(reach, r)
		if nonNilErr && e.sc.sortOf(t) == "Int" {
			e.assume(reach, fmt.Sprintf("(> %s 0)", r.term))
		}
		rs = append(rs, r)
	}
	f.setResult(v, rs)
}

func (f *frame) havocCall(v *ssa.Call, st *State, reach, why string) {
	e := f.e
	e.tick()
	if e.havocs == nil {
		e.havocs = map[string]bool{}
	}
	e.havocs[why] = true
	f.havocAll(st, reach, nil)
	f.freshResults(v, reach, false)
}

// stdCall models the standard-library functions that have an assumed contract.
func (f *frame) stdCall(v *ssa.Call, name string, args []Val, st *State, reach string) bool {
	e := f.e
	fp1 := func(op string) bool {
		e.noteAssumed("exact IEEE semantics: " + name)
		f.vals[v] = Val{term: e.define(v.Name(), e.sc.sortOf(v.Type()), fmt.Sprintf("(%s %s)", op, args[0].term)), typ: v.Type()}
		return true
	}
	switch {
	case isPutUint(name):
		e.noteAssumed("little-endian byte stores: " + name)
		f.putUint(v, name, args, st, reach)
		return true
	case isGetUint(name):
		e.noteAssumed("little-endian byte loads: " + name)
		f.getUint(v, name, args, st, reach)
		return true
	}
	switch name {
	case "math.Float32bits", "math.Float64bits":
		if e.sc.arith != "bv" {
			return false
		}
		e.noteAssumed("bit pattern of a float (any NaN payload): " + name)
		w, eb, sb := 32, 8, 24
		if name == "math.Float64bits" {
			w, eb, sb = 64, 11, 53
		}
		b := e.declare("fbits", fmt.Sprintf("(_ BitVec %d)", w))
		e.assume(reach, fmt.Sprintf("(= ((_ to_fp %d %d) %s) %s)", eb, sb, b, args[0].term))
		if e.bitsSyms == nil {
			e.bitsSyms = map[string]string{}
		}
		if _, dup := e.bitsSyms[args[0].term]; !dup {
			e.bitsSyms[args[0].term] = b
		}
		f.vals[v] = Val{term: b, typ: v.Type()}
		return true
	case "math.Float32frombits":
		if e.sc.arith != "bv" {
			return false
		}
		e.noteAssumed("float of a bit pattern: " + name)
		f.vals[v] = Val{term: fmt.Sprintf("((_ to_fp 8 24) %s)", args[0].term), typ: v.Type()}
		return true
	case "math.Float64frombits":
		if e.sc.arith != "bv" {
			return false
		}
		e.noteAssumed("float of a bit pattern: " + name)
		f.vals[v] = Val{term: fmt.Sprintf("((_ to_fp 11 53) %s)", args[0].term), typ: v.Type()}
		return true
	case "math.Trunc":
		return fp1("fp.roundToIntegral RTZ")
	case "math.Floor":
		return fp1("fp.roundToIntegral RTN")
	case "math.Ceil":
		return fp1("fp.roundToIntegral RTP")
	case "math.RoundToEven":
		return fp1("fp.roundToIntegral RNE")
	case "math.Round":
		return fp1("fp.roundToIntegral RNA")
	case "math.Abs":
		return fp1("fp.abs")
	case "math.Sqrt":
		return fp1("fp.sqrt RNE")
	case "math.IsNaN":
		e.noteAssumed("exact IEEE semantics: " + name)
		f.vals[v] = Val{term: fmt.Sprintf("(fp.isNaN %s)", args[0].term), typ: v.Type()}
		return true
	case "math.Signbit":
		e.noteAssumed("exact IEEE semantics: " + name)
		f.vals[v] = Val{term: fmt.Sprintf("(and (not (fp.isNaN %s)) (fp.isNegative %s))", args[0].term, args[0].term), typ: v.Type()}
		if true {
			// Signbit(NaN) depends on the payload: leave it unconstrained for NaN
			b := e.declare("signbit", "Bool")
			e.assume(reach, fmt.Sprintf("(=> (not (fp.isNaN %s)) (= %s (fp.isNegative %s)))", args[0].term, b, args[0].term))
			f.vals[v] = Val{term: b, typ: v.Type()}
		}
		return true
	case "math.IsInf":
		e.noteAssumed("exact IEEE semantics: " + name)
		sg := args[1].term
		var pos, neg string
		if e.sc.arith == "int" {
			pos, neg = fmt.Sprintf("(>= %s 0)", sg), fmt.Sprintf("(<= %s 0)", sg)
		} else {
			z := e.sc.intLit(0, args[1].typ)
			pos, neg = fmt.Sprintf("(bvsge %s %s)", sg, z), fmt.Sprintf("(bvsle %s %s)", sg, z)
		}
		x := args[0].term
		f.vals[v] = Val{term: fmt.Sprintf("(and (fp.isInfinite %s) (or (and %s (fp.isPositive %s)) (and %s (fp.isNegative %s))))", x, pos, x, neg, x), typ: v.Type()}
		return true
	case "math.Inf":
		e.noteAssumed("exact IEEE semantics: " + name)
		sg := args[0].term
		var pos string
		if e.sc.arith == "int" {
			pos = fmt.Sprintf("(>= %s 0)", sg)
		} else {
			pos = fmt.Sprintf("(bvsge %s %s)", sg, e.sc.intLit(0, args[0].typ))
		}
		f.vals[v] = Val{term: fmt.Sprintf("(ite %s (_ +oo 11 53) (_ -oo 11 53))", pos), typ: v.Type()}
		return true
	case "math.NaN":
		f.vals[v] = Val{term: "(_ NaN 11 53)", typ: v.Type()}
		return true
	case "math/bits.OnesCount32", "math/bits.OnesCount64", "math/bits.OnesCount16", "math/bits.OnesCount8", "math/bits.OnesCount":
		if e.sc.arith != "bv" {
			return false
		}
		e.noteAssumed("population count: " + name)
		w, _ := e.width(args[0].typ)
		var parts []string
		for i := 0; i < w; i++ {
			parts = append(parts, fmt.Sprintf("((_ zero_extend 63) ((_ extract %d %d) %s))", i, i, args[0].term))
		}
		f.vals[v] = Val{term: e.define(v.Name(), "(_ BitVec 64)", "(bvadd "+strings.Join(parts, " ")+")"), typ: v.Type()}
		return true
	case "math/bits.LeadingZeros32", "math/bits.LeadingZeros64", "math/bits.LeadingZeros16", "math/bits.LeadingZeros8", "math/bits.Len32", "math/bits.Len64", "math/bits.Len":
		if e.sc.arith != "bv" {
			return false
		}
		e.noteAssumed("leading-zero count: " + name)
		w, _ := e.width(args[0].typ)
		// Len(x) = index of the highest set bit + 1
		t := bvLit(0, 64)
		for i := 0; i < w; i++ {
			t = fmt.Sprintf("(ite (= ((_ extract %d %d) %s) #b1) %s %s)", i, i, args[0].term, bvLit(uint64(i+1), 64), t)
		}
		ln := e.define(v.Name()+"_len", "(_ BitVec 64)", t)
		if strings.Contains(name, "Len") {
			f.vals[v] = Val{term: ln, typ: v.Type()}
		} else {
			f.vals[v] = Val{term: fmt.Sprintf("(bvsub %s %s)", bvLit(uint64(w), 64), ln), typ: v.Type()}
		}
		return true
	case "math/bits.TrailingZeros32", "math/bits.TrailingZeros64", "math/bits.TrailingZeros16", "math/bits.TrailingZeros8":
		if e.sc.arith != "bv" {
			return false
		}
		e.noteAssumed("trailing-zero count: " + name)
		w, _ := e.width(args[0].typ)
		t := bvLit(uint64(w), 64)
		for i := w - 1; i >= 0; i-- {
			t = fmt.Sprintf("(ite (= ((_ extract %d %d) %s) #b1) %s %s)", i, i, args[0].term, bvLit(uint64(i), 64), t)
		}
		f.vals[v] = Val{term: e.define(v.Name(), "(_ BitVec 64)", t), typ: v.Type()}
		return true
	case "math/bits.Reverse32", "math/bits.Reverse64", "math/bits.Reverse16", "math/bits.Reverse8":
		if e.sc.arith != "bv" {
			return false
		}
		e.noteAssumed("bit reversal: " + name)
		w, _ := e.width(args[0].typ)
		var parts []string
		for i := 0; i < w; i++ {
			parts = append(parts, fmt.Sprintf("((_ extract %d %d) %s)", i, i, args[0].term))
		}
		f.vals[v] = Val{term: e.define(v.Name(), fmt.Sprintf("(_ BitVec %d)", w), "(concat "+strings.Join(parts, " ")+")"), typ: v.Type()}
		return true
	case "unicode.IsLetter", "unicode.IsDigit":
		// exact on ASCII (and on negative runes: false); unconstrained above 127
		e.noteAssumed("exact for runes < 128, unconstrained otherwise: " + name)
		r := args[0].term
		b := e.declare("isclass", "Bool")
		var lt128, exact string
		if e.sc.arith == "int" {
			lt128 = fmt.Sprintf("(< %s 128)", r)
			if name == "unicode.IsLetter" {
				exact = fmt.Sprintf("(or (and (<= 65 %s) (<= %s 90)) (and (<= 97 %s) (<= %s 122)))", r, r, r, r)
			} else {
				exact = fmt.Sprintf("(and (<= 48 %s) (<= %s 57))", r, r)
			}
		} else {
			c := func(v int) string { return bvLit(uint64(v), 32) }
			lt128 = fmt.Sprintf("(bvslt %s %s)", r, c(128))
			if name == "unicode.IsLetter" {
				exact = fmt.Sprintf("(or (and (bvsle %s %s) (bvsle %s %s)) (and (bvsle %s %s) (bvsle %s %s)))", c(65), r, r, c(90), c(97), r, r, c(122))
			} else {
				exact = fmt.Sprintf("(and (bvsle %s %s) (bvsle %s %s))", c(48), r, r, c(57))
			}
		}
		e.assume(reach, fmt.Sprintf("(=> %s (= %s %s))", lt128, b, exact))
		f.vals[v] = Val{term: b, typ: v.Type()}
		return true
	case "unicode/utf8.DecodeRuneInString", "unicode/utf8.DecodeRune":
		// 0 < len ==> 1 <= size <= min(4, len); len == 0 ==> size == 0
		e.noteAssumed("0<len ==> 1<=size<=min(4,len), size==0 for empty input: " + name)
		r := Val{term: e.declare("rune", e.sc.sortOf(types.Typ[types.Int32])), typ: types.Typ[types.Int32]}
		e.assumeRange(reach, r)
		sz := Val{term: e.declare("runesize", e.idxSort()), typ: types.Typ[types.Int]}
		ln := fmt.Sprintf("(s_len %s)", args[0].term)
		if e.sc.arith == "int" {
			e.assume(reach, fmt.Sprintf("(ite (= %s 0) (= %s 0) (and (<= 1 %s) (<= %s 4) (<= %s %s)))", ln, sz.term, sz.term, sz.term, sz.term, ln))
			e.assume(reach, fmt.Sprintf("(and (<= 0 %s) (<= %s 1114111))", r.term, r.term))
			// ASCII fast path is exact
			e.assume(reach, fmt.Sprintf("(=> (and (> %s 0) (< %s 128)) (and (= %s 1) (= %s %s)))", ln, e.strOrSliceAt(args[0], st, "0"), sz.term, r.term, e.strOrSliceAt(args[0], st, "0")))
			e.assume(reach, fmt.Sprintf("(=> (and (> %s 0) (>= %s 128)) (>= %s 128))", ln, e.strOrSliceAt(args[0], st, "0"), r.term))
		} else {
			z, one, four := bvLit(0, 64), bvLit(1, 64), bvLit(4, 64)
			e.assume(reach, fmt.Sprintf("(ite (= %s %s) (= %s %s) (and (bvule %s %s) (bvule %s %s) (bvule %s %s)))", ln, z, sz.term, z, one, sz.term, sz.term, four, sz.term, ln))
		}
		f.setTuple(v, []Val{r, sz})
		return true
	}
	return false
}

func (e *Engine) strOrSliceAt(s Val, st *State, idx string) string {
	if isString(s.typ) {
		return e.strAt(s.term, idx)
	}
	h := e.heapTerm(st, types.Typ[types.Uint8], true)
	return fmt.Sprintf("(select (select %s (s_base %s)) %s)", h, s.term, e.idxAdd(fmt.Sprintf("(s_off %s)", s.term), idx))
}

func (f *frame) putUint(v *ssa.Call, name string, args []Val, st *State, reach string) {
	e := f.e
	n := 4
	if strings.HasSuffix(name, "16") {
		n = 2
	} else if strings.HasSuffix(name, "64") {
		n = 8
	}
	sl := args[1].term
	f.nopanic("put", "", reach, e.idxLe(e.idxLit(int64(n)), fmt.Sprintf("(s_len %s)", sl)))
	byteT := types.Typ[types.Uint8]
	h := e.heapTerm(st, byteT, true)
	hn, hs := e.heapName(byteT, true)
	content := fmt.Sprintf("(select %s (s_base %s))", h, sl)
	val := args[2]
	var bytes []string
	if e.sc.arith == "int" {
		// linear characterisation: fresh bytes b_i in [0,256) with
		// val == sum 256^i * b_i (val is already in the range of its unsigned type)
		var sum []string
		for i := 0; i < n; i++ {
			b := e.declare("byte", "Int")
			bytes = append(bytes, b)
			e.assume("true", fmt.Sprintf("(and (<= 0 %s) (< %s 256))", b, b))
			sum = append(sum, fmt.Sprintf("(* %s %s)", pow2(8*i), b))
		}
		e.assume("true", fmt.Sprintf("(= %s (+ %s))", val.term, strings.Join(sum, " ")))
	} else {
		for i := 0; i < n; i++ {
			bytes = append(bytes, fmt.Sprintf("((_ extract %d %d) %s)", 8*i+7, 8*i, val.term))
		}
	}
	for i := 0; i < n; i++ {
		content = fmt.Sprintf("(store %s %s %s)", content, e.idxAdd(fmt.Sprintf("(s_off %s)", sl), e.idxLit(int64(i))), bytes[i])
	}
	st.heaps[hn] = e.define(hn, hs, fmt.Sprintf("(store %s (s_base %s) %s)", h, sl, content))
}

func (f *frame) getUint(v *ssa.Call, name string, args []Val, st *State, reach string) {
	e := f.e
	n := 4
	if strings.HasSuffix(name, "16") {
		n = 2
	} else if strings.HasSuffix(name, "64") {
		n = 8
	}
	sl := args[1].term
	f.nopanic("get", "", reach, e.idxLe(e.idxLit(int64(n)), fmt.Sprintf("(s_len %s)", sl)))
	h := e.heapTerm(st, types.Typ[types.Uint8], true)
	at := func(i int) string {
		return fmt.Sprintf("(select (select %s (s_base %s)) %s)", h, sl, e.idxAdd(fmt.Sprintf("(s_off %s)", sl), e.idxLit(int64(i))))
	}
	var t string
	if e.sc.arith == "int" {
		var parts []string
		for i := 0; i < n; i++ {
			parts = append(parts, fmt.Sprintf("(* %s %s)", pow2(8*i), at(i)))
		}
		t = "(+ " + strings.Join(parts, " ") + ")"
	} else {
		var parts []string
		for i := n - 1; i >= 0; i-- {
			parts = append(parts, at(i))
		}
		t = "(concat " + strings.Join(parts, " ") + ")"
	}
	f.vals[v] = Val{term: e.define(v.Name(), e.sc.sortOf(v.Type()), t), typ: v.Type()}
}

// tryInline inlines the callee; if its body turns out to be outside the subset
// the partial work is rolled back and the caller falls back to a havocked call.
func (f *frame) tryInline(v *ssa.Call, callee *ssa.Function, args []Val, free []Val, st *State, reach string) (ok bool) {
	e := f.e
	nd, no := len(e.decls), len(e.obls)
	saved := st.clone()
	depth := e.inlineDepth
	nloc := len(f.locals)
	defer func() {
		if r := recover(); r != nil {
			e.decls = e.decls[:nd]
			e.obls = e.obls[:no]
			for k := range e.declared {
				_ = k
			}
			// declarations made during the failed attempt are gone: forget them
			e.redeclare()
			st.heaps, st.epoch = saved.heaps, saved.epoch
			e.inlineDepth = depth
			f.locals = f.locals[:nloc]
			if e.havocs == nil {
				e.havocs = map[string]bool{}
			}
			e.havocs[fmt.Sprintf("not inlined (%v): %s", r, callee.String())] = true
			ok = false
		}
	}()
	f.inlineWith(v, callee, args, free, st, reach)
	return true
}

func (f *frame) inlineWith(v *ssa.Call, callee *ssa.Function, args []Val, free []Val, st *State, reach string) {
	e := f.e
	e.inlineDepth++
	defer func() { e.inlineDepth-- }()
	nf := &frame{e: e, fn: callee, parent: f, vals: map[ssa.Value]Val{}, reach: map[*ssa.BasicBlock]string{}, exitSt: map[*ssa.BasicBlock]*State{},
		edge: map[[2]int]string{}, ctr: nil, name: f.name + ">" + callee.Name(), safety: f.safety}
	for i, p := range callee.Params {
		nf.vals[p] = args[i]
	}
	for i, fv := range callee.FreeVars {
		nf.vals[fv] = free[i]
	}
	nf.exec(reach, st)
	// merge returns
	var pairs []condState
	for _, r := range nf.rets {
		pairs = append(pairs, condState{r.reach, r.st})
	}
	if len(pairs) == 0 {
		// the callee never returns (always panics): the rest of this block is dead
		e.assume(reach, "false")
		f.freshResults(v, reach, false)
		return
	}
	m := e.mergeStates(pairs)
	st.heaps = m.heaps
	st.epoch = m.epoch
	// the paths on which the callee panicked do not continue
	var rc []string
	for _, r := range nf.rets {
		rc = append(rc, r.reach)
	}
	e.assume(reach, orTerms(rc))
	sig := callee.Signature
	var rs []Val
	for i := 0; i < sig.Results().Len(); i++ {
		t := sig.Results().At(i).Type()
		var term string
		var addr *Addr
		var clo *closureVal
		for k := len(nf.rets) - 1; k >= 0; k-- {
			rv := nf.rets[k].vals[i]
			if term == "" {
				term = rv.term
				addr, clo = rv.addr, rv.clo
			} else {
				term = fmt.Sprintf("(ite %s %s %s)", nf.rets[k].reach, rv.term, term)
				if rv.addr != addr || rv.clo != clo {
					addr, clo = nil, nil
				}
			}
		}
		rs = append(rs, Val{term: e.define("ret", e.sc.sortOf(t), term), typ: t, addr: addr, clo: clo})
	}
	f.setResult(v, rs)
}

func (f *frame) callByContract(v *ssa.Call, callee *ssa.Function, ctr *Contract, args []Val, st *State, reach string) {
	e := f.e
	env := map[string]Val{}
	for i, p := range callee.Params {
		env[p.Name()] = args[i]
	}
	dreq, dens := e.derived(callee, ctr)
	for _, r := range append(append([]Clause{}, ctr.Requires...), dreq...) {
		o := e.oblige("pre", fmt.Sprintf("%s/pre@%s:%s", f.rootName(), shortFn(callee), r.Label), "", reach, f.evalSpecIn(callee, r.Src, st, env, st))
		o.Slow = r.Slow
	}
	pre := st.clone()
	e.tick()
	// frame: "p.f" entries havoc single fields of the cell p points to; "*p" a whole
	// cell; "HA_x"/"H_x" entries a whole heap; "*" everything.
	byParam := map[string][]string{}
	var pnames []string
	if !ctr.HasAssigns && !ctr.Pure {
		// no frame declared: the callee may write anything
		f.havocAll(st, reach, nil)
	}
	for _, a := range ctr.Assigns {
		switch {
		case a == "*":
			f.havocAll(st, reach, nil)
		case strings.HasPrefix(a, "H_") || strings.HasPrefix(a, "HA_"):
			ca, okc := e.canonHeap(a)
			if !okc {
				panic("assigns: unknown heap " + a)
			}
			a = ca
			if _, ok := e.hsort[a]; ok {
				old := e.heapByName(st, a)
				st.heaps[a] = e.declare(a+"@call", e.hsort[a])
				for fr := f; fr != nil; fr = fr.parent {
					for _, lc := range fr.locals {
						if lc.heap == a {
							e.assume(reach, fmt.Sprintf("(= (select %s %s) (select %s %s))", st.heaps[a], lc.loc, old, lc.loc))
						}
					}
				}
			}
		case strings.HasPrefix(a, "*"):
			if _, ok := byParam[a[1:]]; !ok {
				pnames = append(pnames, a[1:])
			}
			byParam[a[1:]] = append(byParam[a[1:]], "*")
		default:
			i := strings.Index(a, ".")
			if i <= 0 {
				panic("bad assigns entry " + a)
			}
			if _, ok := byParam[a[:i]]; !ok {
				pnames = append(pnames, a[:i])
			}
			byParam[a[:i]] = append(byParam[a[:i]], a[i+1:])
		}
	}
	for _, pname := range pnames {
		fields := byParam[pname]
		pv, ok := env[pname]
		if !ok {
			panic("assigns: no parameter " + pname)
		}
		pt, ok := pv.typ.Underlying().(*types.Pointer)
		if !ok {
			panic("assigns: parameter " + pname + " is not a pointer")
		}
		cellT := pt.Elem()
		if pv.addr != nil {
			panic("assigns through an interior pointer argument")
		}
		h := e.heapTerm(st, cellT, false)
		hn, hs := e.heapName(cellT, false)
		whole := false
		for _, fn := range fields {
			if fn == "*" {
				whole = true
			}
		}
		stT, isStruct := cellT.Underlying().(*types.Struct)
		if whole || !isStruct {
			nv := e.declare("cell_"+pname, e.sc.sortOf(cellT))
			st.heaps[hn] = e.define(hn, hs, fmt.Sprintf("(store %s %s %s)", h, pv.term, nv))
			continue
		}
		sn := e.sc.sortOf(cellT)
		var parts []string
		for i := 0; i < stT.NumFields(); i++ {
			hit := false
			for _, fn := range fields {
				if fn == stT.Field(i).Name() {
					hit = true
				}
			}
			if hit {
				nv := Val{term: e.declare("fld_"+stT.Field(i).Name(), e.sc.sortOf(stT.Field(i).Type())), typ: stT.Field(i).Type()}
				e.assumeRange(reach, nv)
				parts = append(parts, nv.term)
			} else {
				parts = append(parts, fmt.Sprintf("(%s_f%d (select %s %s))", sn, i, h, pv.term))
			}
		}
		for _, fn := range fields {
			found := false
			for i := 0; i < stT.NumFields(); i++ {
				if stT.Field(i).Name() == fn {
					found = true
				}
			}
			if !found {
				panic("assigns: no field " + fn + " in " + cellT.String())
			}
		}
		st.heaps[hn] = e.define(hn, hs, fmt.Sprintf("(store %s %s (mk_%s %s))", h, pv.term, sn, strings.Join(parts, " ")))
	}
	sig := callee.Signature
	var rs []Val
	for i := 0; i < sig.Results().Len(); i++ {
		t := sig.Results().At(i).Type()
		r := Val{term: e.declare("res", e.sc.sortOf(t)), typ: t}
		e.assumeRange(reach, r)
		rs = append(rs, r)
	}
	if len(rs) == 1 {
		env["result"] = rs[0]
	}
	for i, r := range rs {
		env[fmt.Sprintf("result%d", i)] = r
	}
	e.freshLo = fmt.Sprintf("(+ alloc0 %d)", e.allocN*allocGap)
	e.freshHi = fmt.Sprintf("(+ alloc0 %d)", (e.allocN+1)*allocGap)
	for _, en := range append(append([]Clause{}, ctr.Ensures...), dens...) {
		e.assume(reach, f.evalSpecIn(callee, en.Src, st, env, pre))
	}
	e.freshLo, e.freshHi = "", ""
	e.tick() // what the caller allocates from here on is newer than what the callee allocated
	if ctr.Functional && len(rs) == 1 {
		// same arguments, same result (the callee is pure and nothing it reads changes
		// between the calls that are compared; assumption listed in the evidence)
		sym := "uff_" + mangle(shortFn(callee))
		if !e.declared[sym] {
			e.declared[sym] = true
			var ss []string
			for _, a := range args {
				ss = append(ss, e.sc.sortOf(a.typ))
			}
			e.decls = append(e.decls, fmt.Sprintf("(declare-fun %s (%s) %s)", sym, strings.Join(ss, " "), e.sc.sortOf(rs[0].typ)))
			e.noteAssumed("functional: the result of " + shortFn(callee) + " depends only on its arguments")
		}
		var as []string
		for _, a := range args {
			as = append(as, a.term)
		}
		e.assume(reach, fmt.Sprintf("(= %s (%s %s))", rs[0].term, sym, strings.Join(as, " ")))
	}
	f.setResult(v, rs)
}

func shortFn(fn *ssa.Function) string {
	s := fn.String()
	if fn.Pkg != nil {
		s = strings.Replace(s, fn.Pkg.Pkg.Path()+".", "", 1)
	}
	return s
}

func (f *frame) doBuiltin(v *ssa.Call, b *ssa.Builtin, st *State, reach string) {
	e := f.e
	args := v.Call.Args
	switch b.Name() {
	case "len":
		x := f.val(args[0])
		switch u := x.typ.Underlying().(type) {
		case *types.Slice, *types.Basic:
			f.vals[v] = Val{term: fmt.Sprintf("(s_len %s)", x.term), typ: v.Type()}
		case *types.Map:
			r := Val{term: e.define(v.Name(), e.idxSort(), e.mapLen(st, x.term)), typ: v.Type()}
			e.assume(reach, e.idxLe(e.idxLit(0), r.term))
			if e.sc.arith == "bv" {
				e.assume(reach, e.idxLe(r.term, bvLit(maxLen, 64)))
			}
			f.vals[v] = r
		case *types.Array:
			f.vals[v] = Val{term: e.idxLit(u.Len()), typ: v.Type()}
		case *types.Pointer:
			f.vals[v] = Val{term: e.idxLit(u.Elem().Underlying().(*types.Array).Len()), typ: v.Type()}
		default:
			panic("len of " + x.typ.String())
		}
	case "cap":
		x := f.val(args[0])
		f.vals[v] = Val{term: fmt.Sprintf("(s_cap %s)", x.term), typ: v.Type()}
	case "append":
		s := f.val(args[0])
		t := f.val(args[1])
		if rc := f.ctr; rc != nil && f.parent == nil {
			env := map[string]Val{"arg0": s, "arg1": t}
			for _, ks := range rc.CallKeeps["append"] {
				f.keepObligations(ks, st, env, reach, "at@append")
			}
			for _, as := range rc.CallAsserts["append"] {
				if tm, bound := f.evalSpecAtSite(as.Src, st, env); bound {
					o := e.oblige("at", fmt.Sprintf("%s/at@append:%s", f.name, as.Label), "", reach, tm)
					o.Slow = as.Slow
				}
			}
		}
		elem := s.typ.Underlying().(*types.Slice).Elem()
		newLen := e.idxAdd(fmt.Sprintf("(s_len %s)", s.term), fmt.Sprintf("(s_len %s)", t.term))
		rb := e.declare("app_base", "Int")
		ro := e.declare("app_off", e.idxSort())
		rc := e.declare("app_cap", e.idxSort())
		res := e.define(v.Name(), "Slice", fmt.Sprintf("(mk_slice %s %s %s %s)", rb, ro, newLen, rc))
		h := e.heapTerm(st, elem, true)
		hn, hs := e.heapName(elem, true)
		fresh := e.nextLoc()
		inPlace := e.idxLe(newLen, fmt.Sprintf("(s_cap %s)", s.term))
		e.assume(reach, fmt.Sprintf("(ite %s (and (= %s (s_base %s)) (= %s (s_off %s)) (= %s (s_cap %s))) (and (= %s %s) (= %s %s) %s %s))",
			inPlace, rb, s.term, ro, s.term, rc, s.term, rb, fresh, ro, e.idxLit(0), e.idxLe(newLen, rc), e.idxLe(rc, e.idxLit(maxLen))))
		nc := e.declare("app_content", fmt.Sprintf("(Array %s %s)", e.idxSort(), e.sc.sortOf(elem)))
		i := "i!q"
		var rng1, rng2 string
		if e.sc.arith == "int" {
			rng1 = fmt.Sprintf("(and (<= 0 %s) (< %s (s_len %s)))", i, i, s.term)
			rng2 = fmt.Sprintf("(and (<= 0 %s) (< %s (s_len %s)))", i, i, t.term)
		} else {
			rng1 = fmt.Sprintf("(bvult %s (s_len %s))", i, s.term)
			rng2 = fmt.Sprintf("(bvult %s (s_len %s))", i, t.term)
		}
		// old content: the old backing array when appending in place keeps every
		// cell outside the appended range; a fresh array is only known on [0,newLen)
		oldContent := fmt.Sprintf("(select %s (s_base %s))", h, s.term)
		var srcAt func(idx string) string
		if isString(t.typ) {
			srcAt = func(idx string) string { return e.strAt(t.term, idx) }
		} else {
			srcAt = func(idx string) string {
				return fmt.Sprintf("(select (select %s (s_base %s)) %s)", h, t.term, e.idxAdd(fmt.Sprintf("(s_off %s)", t.term), idx))
			}
		}
		// (a) appended elements
		// a single appended element (the common case) needs no quantifier
		if ms, ok := args[1].(*ssa.Slice); ok && isSingleton(ms) {
			e.assume(reach, fmt.Sprintf("(= (select %s %s) %s)", nc, e.idxAdd(ro, fmt.Sprintf("(s_len %s)", s.term)), srcAt(e.idxLit(0))))
		} else {
			e.assume(reach, fmt.Sprintf("(forall ((%s %s)) (! (=> %s (= (select %s %s) %s)) :pattern ((select %s %s))))",
				i, e.idxSort(), rng2, nc, e.idxAdd(e.idxAdd(ro, fmt.Sprintf("(s_len %s)", s.term)), i), srcAt(i), nc, e.idxAdd(e.idxAdd(ro, fmt.Sprintf("(s_len %s)", s.term)), i)))
		}
		// (b) kept elements: in place -> everything outside the appended range is
		// the old content; reallocated -> the first len(s) elements are copied
		j := "j!q"
		var outside string
		if e.sc.arith == "int" {
			outside = fmt.Sprintf("(or (< %s (+ %s (s_len %s))) (>= %s (+ %s %s)))", j, ro, s.term, j, ro, newLen)
		} else {
			outside = fmt.Sprintf("(or (bvult %s (bvadd %s (s_len %s))) (bvuge %s (bvadd %s %s)))", j, ro, s.term, j, ro, newLen)
		}
		e.assume(reach, fmt.Sprintf("(=> %s (forall ((%s %s)) (! (=> %s (= (select %s %s) (select %s %s))) :pattern ((select %s %s)))))",
			inPlace, j, e.idxSort(), outside, nc, j, oldContent, j, nc, j))
		e.assume(reach, fmt.Sprintf("(=> (not %s) (forall ((%s %s)) (! (=> %s (= (select %s %s) (select %s %s))) :pattern ((select %s %s)))))",
			inPlace, i, e.idxSort(), rng1, nc, i, oldContent, e.idxAdd(fmt.Sprintf("(s_off %s)", s.term), i), nc, i))
		st.heaps[hn] = e.define(hn, hs, fmt.Sprintf("(store %s %s %s)", h, rb, nc))
		f.vals[v] = Val{term: res, typ: v.Type()}
	case "copy":
		d := f.val(args[0])
		s := f.val(args[1])
		elem := d.typ.Underlying().(*types.Slice).Elem()
		h := e.heapTerm(st, elem, true)
		hn, hs := e.heapName(elem, true)
		var n string
		if e.sc.arith == "int" {
			n = fmt.Sprintf("(ite (<= (s_len %s) (s_len %s)) (s_len %s) (s_len %s))", d.term, s.term, d.term, s.term)
		} else {
			n = fmt.Sprintf("(ite (bvule (s_len %s) (s_len %s)) (s_len %s) (s_len %s))", d.term, s.term, d.term, s.term)
		}
		nT := e.define("copy_n", e.idxSort(), n)
		nc := e.declare("copy_content", fmt.Sprintf("(Array %s %s)", e.idxSort(), e.sc.sortOf(elem)))
		old := fmt.Sprintf("(select %s (s_base %s))", h, d.term)
		var src string
		if isString(s.typ) {
			src = fmt.Sprintf("(select strdata (s_base %s))", s.term)
		} else {
			src = fmt.Sprintf("(select %s (s_base %s))", h, s.term)
		}
		i := "i!q"
		var in string
		if e.sc.arith == "int" {
			in = fmt.Sprintf("(and (<= (s_off %s) %s) (< %s (+ (s_off %s) %s)))", d.term, i, i, d.term, nT)
		} else {
			in = fmt.Sprintf("(bvult (bvsub %s (s_off %s)) %s)", i, d.term, nT)
		}
		e.assume(reach, fmt.Sprintf("(forall ((%s %s)) (! (= (select %s %s) (ite %s (select %s %s) (select %s %s))) :pattern ((select %s %s))))",
			i, e.idxSort(), nc, i, in, src, e.idxAdd(e.idxSub(i, fmt.Sprintf("(s_off %s)", d.term)), fmt.Sprintf("(s_off %s)", s.term)), old, i, nc, i))
		st.heaps[hn] = e.define(hn, hs, fmt.Sprintf("(store %s (s_base %s) %s)", h, d.term, nc))
		f.vals[v] = Val{term: nT, typ: v.Type()}
	case "min", "max":
		acc := f.val(args[0])
		for _, a := range args[1:] {
			y := f.val(a)
			op := "<="
			var c string
			if _, _, isF := fpParams(acc.typ); isF {
				panic("float min/max")
			}
			if e.sc.arith == "int" {
				c = fmt.Sprintf("(%s %s %s)", op, acc.term, y.term)
			} else if _, sg := e.width(acc.typ); sg {
				c = fmt.Sprintf("(bvsle %s %s)", acc.term, y.term)
			} else {
				c = fmt.Sprintf("(bvule %s %s)", acc.term, y.term)
			}
			if b.Name() == "min" {
				acc = Val{term: fmt.Sprintf("(ite %s %s %s)", c, acc.term, y.term), typ: acc.typ}
			} else {
				acc = Val{term: fmt.Sprintf("(ite %s %s %s)", c, y.term, acc.term), typ: acc.typ}
			}
		}
		f.vals[v] = Val{term: e.define(v.Name(), e.sc.sortOf(v.Type()), acc.term), typ: v.Type()}
	case "clear":
		x := f.val(args[0])
		if sl, ok := x.typ.Underlying().(*types.Slice); ok {
			h := e.heapTerm(st, sl.Elem(), true)
			hn, hs := e.heapName(sl.Elem(), true)
			nc := e.declare("clear_content", fmt.Sprintf("(Array %s %s)", e.idxSort(), e.sc.sortOf(sl.Elem())))
			i := "i!q"
			var in string
			if e.sc.arith == "int" {
				in = fmt.Sprintf("(and (<= (s_off %s) %s) (< %s (+ (s_off %s) (s_len %s))))", x.term, i, i, x.term, x.term)
			} else {
				in = fmt.Sprintf("(bvult (bvsub %s (s_off %s)) (s_len %s))", i, x.term, x.term)
			}
			e.assume(reach, fmt.Sprintf("(forall ((%s %s)) (! (= (select %s %s) (ite %s %s (select (select %s (s_base %s)) %s))) :pattern ((select %s %s))))",
				i, e.idxSort(), nc, i, in, e.sc.zero(sl.Elem()), h, x.term, i, nc, i))
			st.heaps[hn] = e.define(hn, hs, fmt.Sprintf("(store %s (s_base %s) %s)", h, x.term, nc))
		}
		if _, ok := x.typ.Underlying().(*types.Map); ok {
			e.setMapLen(st, x.term, e.idxLit(0))
			e.mapClear(st, x)
		}
	case "delete":
		m := f.val(args[0])
		n := e.declare("maplen", e.idxSort())
		e.assume(reach, fmt.Sprintf("(and %s %s)", e.idxLe(e.idxLit(0), n), e.idxLe(n, e.mapLen(st, m.term))))
		if present, _, ok := e.mapGet(st, m, f.val(args[1]).term); ok {
			old := e.mapLen(st, m.term)
			e.assume(reach, fmt.Sprintf("(= %s (ite %s %s %s))", n, present, e.idxSub(old, e.idxLit(1)), old))
			e.mapStore(st, m, f.val(args[1]).term, "", false)
		}
		e.setMapLen(st, m.term, n)
	case "print", "println":
	case "ssa:wrapnilchk":
		x := f.val(args[0])
		f.vals[v] = x
	default:
		panic("builtin " + b.Name())
	}
}

// isSingleton reports whether the variadic slice is a one-element array slice
// (what go/ssa builds for append(s, x)).
func isSingleton(s *ssa.Slice) bool {
	if s.Low != nil || s.High != nil {
		return false
	}
	pt, ok := s.X.Type().Underlying().(*types.Pointer)
	if !ok {
		return false
	}
	at, ok := pt.Elem().Underlying().(*types.Array)
	return ok && at.Len() == 1
}

func instrCount(fn *ssa.Function) int {
	n := 0
	for _, b := range fn.Blocks {
		n += len(b.Instrs)
	}
	return n
}

// ghostArgIndex: index (in Params/args, receiver included) of the parameter a
// ghostcall records.
func ghostArgIndex(callee *ssa.Function, pname string) int {
	if pname != "" {
		for i, p := range callee.Params {
			if p.Name() == pname {
				return i
			}
		}
		panic("ghostcall: no parameter " + pname)
	}
	if callee.Signature.Recv() != nil {
		return 1
	}
	return 0
}

// keepObligations evaluates a keep directive at a site: the type of In decides
// the clauses (see keepClauses); sites where In or Out does not bind, or where
// their types differ, are skipped.
func (f *frame) keepObligations(ks KeepSpec, st *State, env map[string]Val, reach, where string) {
	e := f.e
	var inV, outV Val
	ok := func() (bound bool) {
		defer func() {
			if r := recover(); r != nil {
				bound = false
			}
		}()
		se := &specEnv{f: f, pkg: f.fn.Pkg.Pkg, st: st, pre: f.pre, names: env}
		inV = se.evalAny(ks.In)
		outV = se.evalAny(ks.Out)
		return true
	}()
	if !ok || !types.Identical(inV.typ, outV.typ) {
		return
	}
	se := &specEnv{f: f, pkg: f.fn.Pkg.Pkg}
	h := se.typeByName(ks.Handle)
	for _, c := range e.keepClauses(inV.typ, ks.In, ks.Out, h) {
		src := c.Src
		if ks.Unless != "" {
			src = "!(" + ks.Unless + ") ==> (" + src + ")"
		}
		if tm, bound := f.evalSpecAtSite(src, st, env); bound {
			e.oblige("keep", fmt.Sprintf("%s/%s:%s", f.name, where, c.Label), "", reach, tm)
		}
	}
}
