package main

import (
	"context"
	"fmt"
	"os"
	"os/exec"
	"path/filepath"
	"regexp"
	"sort"
	"strings"
	"sync/atomic"
	"time"
)

type Result struct {
	Name, Group, Kind, Fn string
	Verdict               string // unsat | sat | timeout | unknown | error:…
	Solver                string
	Secs                  float64
	File                  string
	Known                 bool
	Model                 string // get-value output for the parameter symbols when sat
	Bytes                 int
	Cross                 string // second-solver verdict (thorough tier)
}

// expected verdict: "unsat" for everything but cover obligations.
func (r Result) ok() bool {
	if r.Kind == "cover" {
		return r.Verdict == "sat"
	}
	return r.Verdict == "unsat"
}

var symRe = regexp.MustCompile(`\|[^|]+\|`)

// sliceDecls keeps only the declarations/definitions the goal depends on, plus
// every assumption that mentions a kept symbol (fixed point).
func sliceDecls(decls []string, goal string) []string {
	defOf := map[string]int{}
	for i, d := range decls {
		if strings.HasPrefix(d, "(define-fun ") || strings.HasPrefix(d, "(declare-const ") || strings.HasPrefix(d, "(declare-fun ") {
			if m := symRe.FindString(d); m != "" && strings.Index(d, m) < 20 {
				defOf[m] = i
			}
		}
	}
	keep := map[int]bool{}
	need := map[string]bool{}
	var work []string
	add := func(text string) {
		for _, m := range symRe.FindAllString(text, -1) {
			if !need[m] {
				need[m] = true
				work = append(work, m)
			}
		}
	}
	add(goal)
	type as struct {
		i    int
		syms []string
	}
	var asserts []as
	for i, d := range decls {
		if strings.HasPrefix(d, "(assert ") {
			syms := symRe.FindAllString(d, -1)
			if len(syms) == 0 {
				keep[i] = true // closed assumption (ghost axioms)
				continue
			}
			asserts = append(asserts, as{i, syms})
		} else if m := symRe.FindString(d); m == "" || strings.Index(d, m) >= 20 {
			keep[i] = true // declarations without |sym| names (e.g. declare-fun prefix)
			add(d)
		}
	}
	for {
		for len(work) > 0 {
			m := work[len(work)-1]
			work = work[:len(work)-1]
			if i, ok := defOf[m]; ok && !keep[i] {
				keep[i] = true
				add(decls[i])
			}
		}
		changed := false
		for _, a := range asserts {
			if keep[a.i] {
				continue
			}
			for _, m := range a.syms {
				if need[m] {
					keep[a.i] = true
					add(decls[a.i])
					changed = true
					break
				}
			}
		}
		if !changed && len(work) == 0 {
			break
		}
	}
	var out []string
	for i, d := range decls {
		if keep[i] {
			out = append(out, d)
		}
	}
	return out
}

func (e *Engine) prelude() string {
	var sb strings.Builder
	sb.WriteString("(set-logic ALL)\n")
	slice := "(declare-datatypes ((Slice 0)) (((mk_slice (s_base Int) (s_off IDX) (s_len IDX) (s_cap IDX)))))\n"
	sb.WriteString(strings.ReplaceAll(slice, "IDX", e.idxSort()))
	if len(e.sc.order) > 0 {
		var names, bodies []string
		for _, n := range e.sc.order {
			names = append(names, "("+n+" 0)")
			bodies = append(bodies, e.sc.structDecls[n])
		}
		sb.WriteString("(declare-datatypes (" + strings.Join(names, " ") + ") (" + strings.Join(bodies, " ") + "))\n")
	}
	sb.WriteString("(declare-const alloc0 Int)\n(assert (> alloc0 1))\n")
	byteS := "(_ BitVec 8)"
	if e.sc.arith == "int" {
		byteS = "Int"
	}
	sb.WriteString(fmt.Sprintf("(declare-const strdata (Array Int (Array %s %s)))\n", e.idxSort(), byteS))
	return sb.String()
}

func fileSafe(s string) string {
	return strings.NewReplacer("/", "_", "*", "", "(", "", ")", "", ">", "_", "#", "_", ":", "_", "@", "_", "|", "_", "~", "_", " ", "").Replace(s)
}

func (e *Engine) queryText(o Obligation) string {
	var sb strings.Builder
	sb.WriteString(e.prelude())
	for _, d := range sliceDecls(e.decls[:o.Prefix], o.Reach+" "+o.Prop) {
		sb.WriteString(d + "\n")
	}
	sb.WriteString(fmt.Sprintf("(assert (not (=> %s %s)))\n(check-sat)\n", o.Reach, o.Prop))
	return sb.String()
}

type solverCfg struct {
	name  string
	args  []string
	delay time.Duration
}

func portfolio(file string, timeout time.Duration) []solverCfg {
	ms := fmt.Sprint(timeout.Milliseconds())
	return []solverCfg{
		{"z3-new", []string{"z3-new", "-T:" + fmt.Sprint(int(timeout.Seconds())+1), file}, 0},
		{"cvc5", []string{"cvc5", "--tlimit=" + ms, file}, 1500 * time.Millisecond},
		{"z3", []string{"z3", "-T:" + fmt.Sprint(int(timeout.Seconds())+1), file}, 2500 * time.Millisecond},
		{"cvc5-enum", []string{"cvc5", "--enum-inst", "--tlimit=" + ms, file}, 5 * time.Second},
	}
}

func firstLine(b []byte) string {
	for _, l := range strings.Split(string(b), "\n") {
		l = strings.TrimSpace(l)
		if l != "" {
			return l
		}
	}
	return ""
}

// solve writes the query and races the solver portfolio on it.
func solve(dir string, e *Engine, o Obligation, timeout time.Duration) Result {
	text := e.queryText(o)
	fn := filepath.Join(dir, fileSafe(o.Name)+".smt2")
	os.WriteFile(fn, []byte(text), 0o644)
	res := Result{Name: o.Name, Group: o.Group, Kind: o.Kind, Fn: o.Fn, File: fn, Known: o.Known, Bytes: len(text)}
	if len(text) > 4<<20 {
		res.Verdict = "error:query larger than 4 MB (outside the subset)"
		return res
	}
	type ans struct {
		v, s string
		d    float64
	}
	ctx, cancel := context.WithTimeout(context.Background(), timeout+2*time.Second)
	defer cancel()
	cfgs := portfolio(fn, timeout)
	ch := make(chan ans, len(cfgs))
	for _, c := range cfgs {
		go func(c solverCfg) {
			select {
			case <-time.After(c.delay):
			case <-ctx.Done():
				ch <- ans{"cancelled", c.name, 0}
				return
			}
			t0 := time.Now()
			out, _ := exec.CommandContext(ctx, c.args[0], c.args[1:]...).CombinedOutput()
			ch <- ans{firstLine(out), c.name, time.Since(t0).Seconds() + c.delay.Seconds()}
		}(c)
	}
	best := ans{"timeout", "-", timeout.Seconds()}
	for i := 0; i < len(cfgs); i++ {
		a := <-ch
		if a.v == "unsat" || a.v == "sat" {
			best = a
			cancel()
			break
		}
		if strings.HasPrefix(a.v, "(error") && best.v == "timeout" {
			best = ans{"error:" + a.v, a.s, a.d}
		}
		if a.v == "unknown" && best.v == "timeout" {
			best = ans{"unknown", a.s, a.d}
		}
	}
	res.Verdict, res.Solver, res.Secs = best.v, best.s, best.d
	if res.Verdict == "sat" && o.Kind != "cover" {
		res.Model = e.getModel(fn, text, o)
	}
	return res
}

// crossCheck asks a second solver to confirm an unsat answer (thorough tier).
func crossCheck(r *Result, timeout time.Duration) {
	if r.Verdict != "unsat" {
		return
	}
	other := []string{"cvc5", "--tlimit=" + fmt.Sprint(timeout.Milliseconds()), r.File}
	if strings.HasPrefix(r.Solver, "cvc5") {
		other = []string{"z3-new", "-T:" + fmt.Sprint(int(timeout.Seconds())), r.File}
	}
	ctx, cancel := context.WithTimeout(context.Background(), timeout+time.Second)
	defer cancel()
	out, _ := exec.CommandContext(ctx, other[0], other[1:]...).CombinedOutput()
	r.Cross = other[0] + ":" + firstLine(out)
}

// getModel re-runs z3-new with get-value on the parameter symbols and on the
// scalar fields reachable from pointer parameters in the pre-state.
func (e *Engine) getModel(file, text string, o Obligation) string {
	var terms []string
	for _, p := range e.paramSyms {
		if strings.Contains(text, p.term) {
			terms = append(terms, p.term)
		}
		if b, ok := e.bitsSyms[p.term]; ok && strings.Contains(text, b) {
			terms = append(terms, b)
		}
	}
	if len(terms) == 0 {
		return ""
	}
	mf := strings.TrimSuffix(file, ".smt2") + ".model.smt2"
	os.WriteFile(mf, []byte(text+"(get-value ("+strings.Join(terms, " ")+"))\n"), 0o644)
	ctx, cancel := context.WithTimeout(context.Background(), 60*time.Second)
	defer cancel()
	out, _ := exec.CommandContext(ctx, "z3-new", "-T:50", mf).CombinedOutput()
	s := string(out)
	if !strings.HasPrefix(strings.TrimSpace(s), "sat") {
		out, _ = exec.CommandContext(ctx, "cvc5", "--produce-models", "--tlimit=50000", mf).CombinedOutput()
		s = string(out)
	}
	return s
}

var batchSerial int64

// solveBatch discharges many obligations of one function in a single
// incremental solver process (push/pop), feeding the declarations in program
// order so that each obligation sees exactly the assumptions made before it.
// Members it does not prove are returned with verdict "" and are then solved
// individually by the portfolio (sliced queries, all solvers, counterexamples).
func solveBatch(dir string, e *Engine, obls []Obligation, timeout time.Duration) []Result {
	res := make([]Result, len(obls))
	// Declarations are fed in program order, so the members must be visited in
	// the order of their prefixes: an obligation must never see an assumption
	// that was made after it (for instance its own conclusion, assumed for the
	// code that follows). perm maps visiting order to the caller's order.
	perm := make([]int, len(obls))
	for i := range perm {
		perm[i] = i
	}
	sort.SliceStable(perm, func(a, b int) bool { return obls[perm[a]].Prefix < obls[perm[b]].Prefix })
	sorted := make([]Obligation, len(obls))
	for i, p := range perm {
		sorted[i] = obls[p]
	}
	orig := obls
	obls = sorted
	defer func() {
		// hand the results back in the caller's order
		out := make([]Result, len(res))
		for i, p := range perm {
			out[p] = res[i]
		}
		copy(res, out)
		_ = orig
	}()
	serial := atomic.AddInt64(&batchSerial, 1)
	fn := filepath.Join(dir, fmt.Sprintf("batch%04d_%s_%s_%d.smt2", serial, fileSafe(obls[0].Fn), obls[0].Kind, len(obls)))
	for i, o := range obls {
		res[i] = Result{Name: o.Name, Group: o.Group, Kind: o.Kind, Fn: o.Fn, File: fn, Known: o.Known}
	}
	// Stage A: runs of members between which no assumption is made (only
	// definitions) see the same facts, so their conjunction can be asked for
	// at once; a run that is proved that way is done. This is what keeps the
	// type-derived step clauses (one per kind and field, at every back edge of a
	// big statement switch) affordable.
	proved := make([]bool, len(obls))
	{
		type run struct{ lo, hi int }
		var runs []run
		lo := 0
		for i := 1; i <= len(obls); i++ {
			cut := i == len(obls)
			if !cut {
				for p := obls[i-1].Prefix; p < obls[i].Prefix; p++ {
					if strings.HasPrefix(e.decls[p], "(assert") {
						cut = true
						break
					}
				}
			}
			if cut {
				if i-lo >= 3 {
					runs = append(runs, run{lo, i})
				}
				lo = i
			}
		}
		if len(runs) > 0 {
			var sb strings.Builder
			sb.WriteString("(set-option :timeout 6000)\n")
			sb.WriteString(e.prelude())
			pos := 0
			for _, r := range runs {
				for ; pos < obls[r.hi-1].Prefix; pos++ {
					sb.WriteString(e.decls[pos] + "\n")
				}
				sb.WriteString("(push 1)\n(assert (not (and")
				for _, o := range obls[r.lo:r.hi] {
					sb.WriteString(fmt.Sprintf(" (=> %s %s)", o.Reach, o.Prop))
				}
				sb.WriteString(")))\n(check-sat)\n(pop 1)\n")
			}
			text := sb.String()
			gfn := strings.TrimSuffix(fn, ".smt2") + "_runs.smt2"
			os.WriteFile(gfn, []byte(text), 0o644)
			if !strings.Contains(text, interiorPtr) && len(text) <= 8<<20 {
				total := time.Duration(len(runs))*7*time.Second + 10*time.Second
				ctx, cancel := context.WithTimeout(context.Background(), total)
				t0 := time.Now()
				out, _ := exec.CommandContext(ctx, "z3-new", "-T:"+fmt.Sprint(int(total.Seconds())), gfn).CombinedOutput()
				cancel()
				secs := time.Since(t0).Seconds()
				var lines []string
				bad := false
				for _, l := range strings.Split(string(out), "\n") {
					l = strings.TrimSpace(l)
					if l == "sat" || l == "unsat" || l == "unknown" || strings.HasPrefix(l, "timeout") {
						lines = append(lines, l)
					} else if strings.HasPrefix(l, "(error") {
						bad = true
					}
				}
				if !bad {
					for k, r := range runs {
						if k < len(lines) && lines[k] == "unsat" {
							for i := r.lo; i < r.hi; i++ {
								proved[i] = true
								res[i].Verdict, res[i].Solver, res[i].Secs, res[i].File, res[i].Bytes = "unsat", "z3-new(run)", secs/float64(len(obls)), gfn, len(text)
							}
						}
					}
				}
			}
		}
	}
	var sb strings.Builder
	// every check-sat of the batch gets a short limit: what is not immediate is
	// left to the individual (sliced, portfolio) path
	sb.WriteString("(set-option :timeout 2500)\n")
	sb.WriteString(e.prelude())
	pos := 0
	var asked []int
	for i, o := range obls {
		if proved[i] {
			continue
		}
		for ; pos < o.Prefix; pos++ {
			sb.WriteString(e.decls[pos] + "\n")
		}
		sb.WriteString(fmt.Sprintf("(push 1)\n(assert (not (=> %s %s)))\n(check-sat)\n(pop 1)\n", o.Reach, o.Prop))
		asked = append(asked, i)
	}
	if len(asked) == 0 {
		return res
	}
	text := sb.String()
	os.WriteFile(fn, []byte(text), 0o644)
	for _, i := range asked {
		res[i].Bytes = len(text)
	}
	if strings.Contains(text, interiorPtr) || len(text) > 8<<20 {
		return res
	}
	total := time.Duration(len(asked))*3*time.Second + 10*time.Second
	_ = timeout
	ctx, cancel := context.WithTimeout(context.Background(), total)
	defer cancel()
	t0 := time.Now()
	out, _ := exec.CommandContext(ctx, "z3-new", "-T:"+fmt.Sprint(int(total.Seconds())), fn).CombinedOutput()
	secs := time.Since(t0).Seconds()
	var lines []string
	for _, l := range strings.Split(string(out), "\n") {
		l = strings.TrimSpace(l)
		if l == "sat" || l == "unsat" || l == "unknown" || strings.HasPrefix(l, "timeout") {
			lines = append(lines, l)
		} else if strings.HasPrefix(l, "(error") {
			return res // malformed for z3: let the individual path report it
		}
	}
	for k, i := range asked {
		if k < len(lines) && lines[k] == "unsat" {
			res[i].Verdict, res[i].Solver, res[i].Secs = "unsat", "z3-new(batch)", secs/float64(len(obls))
		}
	}
	return res
}
