package main

import (
	"fmt"
	"go/token"
	"go/types"
	"sort"
	"strings"
	"sync"

	"golang.org/x/tools/go/ssa"
	"golang.org/x/tools/go/ssa/ssautil"
)

// Finding is one entry of /verif/known_findings.txt.
type Finding struct {
	Property string
	Group    string // obligation group the defect lives in
	Witness  string // contract expression over the function's parameters (or call-site names)
	Input    string
	What     string
	Fixed    bool
	Commit   string
}

func pkgLabel(path string) string {
	p := strings.TrimPrefix(path, modulePrefix)
	p = strings.TrimPrefix(p, "/")
	p = strings.ReplaceAll(p, "internal/", "")
	if p == "" {
		p = "naga"
	}
	return p
}

func findFn(prog *ssa.Program, pkgPath, name string) *ssa.Function {
	pkg := prog.ImportedPackage(pkgPath)
	if pkg == nil {
		return nil
	}
	for fn := range ssautil.AllFunctions(prog) {
		if fn.Pkg != pkg {
			continue
		}
		if strings.Contains(fn.Name(), "$") {
			continue
		}
		if strings.Replace(fn.String(), pkgPath+".", "", 1) == name {
			return fn
		}
	}
	return nil
}

func implsOf(prog *ssa.Program) func(u *types.Interface) []types.Type {
	return func(u *types.Interface) []types.Type {
		var out []types.Type
		var pkgs []*ssa.Package
		for _, p := range prog.AllPackages() {
			if strings.HasPrefix(p.Pkg.Path(), modulePrefix) {
				pkgs = append(pkgs, p)
			}
		}
		sort.Slice(pkgs, func(i, j int) bool { return pkgs[i].Pkg.Path() < pkgs[j].Pkg.Path() })
		for _, p := range pkgs {
			sc := p.Pkg.Scope()
			for _, n := range sc.Names() {
				tn, ok := sc.Lookup(n).(*types.TypeName)
				if !ok || tn.IsAlias() {
					continue
				}
				if _, isI := tn.Type().Underlying().(*types.Interface); isI {
					continue
				}
				if named, ok := tn.Type().(*types.Named); ok && named.TypeParams().Len() > 0 {
					continue
				}
				if types.Implements(tn.Type(), u) {
					out = append(out, tn.Type())
				} else if types.Implements(types.NewPointer(tn.Type()), u) {
					out = append(out, types.NewPointer(tn.Type()))
				}
			}
		}
		return out
	}
}

// verifyFunc generates every obligation of one function under contract.
var (
	fnIndexByProg   = map[*ssa.Program]map[string]*ssa.Function{}
	fnIndexByProgMu sync.Mutex
)

func progFnIndex(prog *ssa.Program) map[string]*ssa.Function {
	fnIndexByProgMu.Lock()
	defer fnIndexByProgMu.Unlock()
	if ix, ok := fnIndexByProg[prog]; ok {
		return ix
	}
	ix := map[string]*ssa.Function(buildFnIndex(prog))
	fnIndexByProg[prog] = ix
	return ix
}

func verifyFunc(prog *ssa.Program, fn *ssa.Function, ctr *Contract, all map[string]*Contract, preds map[string]predDef, findings map[string][]Finding) *Engine {
	e := &Engine{fnIndex: progFnIndex(prog), sc: newSortCtx(ctr.Mode), prog: prog, contracts: all, preds: preds, declared: map[string]bool{}, hsort: map[string]string{}}
	e.sc.impls = implsOf(prog)
	e.findings = findings
	name := pkgLabel(ctr.Pkg) + "." + ctr.Fn
	e.fnName = name
	f := &frame{e: e, fn: fn, vals: map[ssa.Value]Val{}, reach: map[*ssa.BasicBlock]string{}, exitSt: map[*ssa.BasicBlock]*State{},
		edge: map[[2]int]string{}, ctr: ctr, name: name, params: map[string]Val{}, safety: ctr.NoPanic}
	e.curFrame = f
	if len(ctr.Orders) > 0 {
		// comparator obligations are generated from the closure alone; a contract
		// that has nothing else does not need the enclosing body
		verifyOrders(e, prog, fn, ctr, name)
		if len(ctr.Requires)+len(ctr.Ensures)+len(ctr.CallAsserts)+len(ctr.Loops)+len(ctr.Traverses)+len(ctr.Resets) == 0 && !ctr.NoPanic {
			return e
		}
	}
	if ctr.NoMapRange {
		mapRangeObligation(e, fn, name)
		if len(ctr.Requires)+len(ctr.Ensures)+len(ctr.CallAsserts)+len(ctr.Loops)+len(ctr.Traverses)+len(ctr.Resets) == 0 && !ctr.NoPanic {
			return e
		}
	}
	st0 := &State{heaps: map[string]string{}}
	for _, p := range fn.Params {
		srt := e.sc.sortOf(p.Type())
		t := e.declare("p_"+p.Name(), srt)
		v := Val{term: t, typ: p.Type()}
		if _, ok := p.Type().Underlying().(*types.Pointer); ok {
			e.decls = append(e.decls, fmt.Sprintf("(assert (and (>= %s 0) (< %s alloc0)))", t, t))
		}
		e.assumeRangeDeep("true", v, 0)
		e.preBound(v, 0)
		for _, pf := range ctr.PureFns {
			if pf != p.Name() {
				continue
			}
			sig, isSig := p.Type().Underlying().(*types.Signature)
			if !isSig || sig.Results().Len() != 1 {
				panic("purefn: " + p.Name() + " is not a function with one result")
			}
			var ss []string
			for i := 0; i < sig.Params().Len(); i++ {
				ss = append(ss, e.sc.sortOf(sig.Params().At(i).Type()))
			}
			v.uf = "uf_" + p.Name()
			e.decls = append(e.decls, fmt.Sprintf("(declare-fun %s (%s) %s)", v.uf, strings.Join(ss, " "), e.sc.sortOf(sig.Results().At(0).Type())))
			e.declared[v.uf] = true
			e.noteAssumed("function parameter " + p.Name() + " of " + name + " is assumed pure (modelled as an uninterpreted function)")
		}
		if g, ok := ctr.Callbacks[p.Name()]; ok {
			sig, isSig := p.Type().Underlying().(*types.Signature)
			if !isSig || sig.Params().Len() < 1 {
				panic("callback: " + p.Name() + " is not a function with a parameter")
			}
			v.cb = g
			e.hsort["G_"+g] = fmt.Sprintf("(Array %s Bool)", e.sc.sortOf(sig.Params().At(0).Type()))
		}
		f.vals[p] = v
		f.params[p.Name()] = v
		e.paramSyms = append(e.paramSyms, paramSym{p.Name(), t, p.Type()})
	}
	for cn, set := range ctr.GhostCalls {
		// pre-register the ghost set's sort from the callee's first non-receiver parameter
		var target *ssa.Function
		if shortFn(fn) == cn || fn.Name() == cn {
			target = fn
		} else {
			for cand := range ssautil.AllFunctions(prog) {
				if cand.Pkg == fn.Pkg && (shortFn(cand) == cn || cand.Name() == cn) && !strings.Contains(cand.Name(), "$") {
					target = cand
					break
				}
			}
		}
		if target == nil {
			// a callee in another package of the module
			for cand := range ssautil.AllFunctions(prog) {
				if cand.Pkg != nil && strings.HasPrefix(cand.Pkg.Pkg.Path(), modulePrefix) && (shortFn(cand) == cn || cand.Name() == cn) && !strings.Contains(cand.Name(), "$") {
					if target == nil || cand.String() < target.String() {
						target = cand
					}
				}
			}
		}
		if target == nil {
			panic("ghostcall: no function " + cn)
		}
		ai := ghostArgIndex(target, ctr.GhostArg[cn])
		if ai >= len(target.Params) {
			panic("ghostcall: " + cn + " has no argument")
		}
		e.hsort["G_"+set] = fmt.Sprintf("(Array %s Bool)", e.sc.sortOf(target.Params[ai].Type()))
	}
	if len(fn.FreeVars) > 0 {
		panic("function under contract has free variables")
	}
	f.pre = st0
	e.rootPre = st0
	for _, n := range sortedKeys(ctr.Funs) {
		e.decls = append(e.decls, fmt.Sprintf("(declare-fun %s %s)", n, ctr.Funs[n]))
	}
	for _, a := range ctr.Axioms {
		e.assume("true", f.evalSpec(a.Src, st0, nil, st0))
		e.noteAssumed("axiom (ghost definition, unchecked) in " + name + ": " + a.Src)
	}
	dreq, dens := e.derived(fn, ctr)
	hasSliceMark := false
	for _, tr := range ctr.Traverses {
		if tr.Mode == "mark" {
			se := &specEnv{f: &frame{e: e, fn: fn}, pkg: fn.Pkg.Pkg}
			if _, ok := se.typeByName(tr.Handle).Underlying().(*types.Slice); ok {
				hasSliceMark = true
			}
		}
	}
	if ds := e.derivedSteps[ctr]; len(ds) > 0 || hasSliceMark {
		// the type-derived step clauses become part of this run's view of the contract
		c2 := *ctr
		c2.Loops = map[int]LoopSpec{}
		for k, ls := range ctr.Loops {
			c2.Loops[k] = ls
		}
		for k, cl := range ds {
			ls := c2.Loops[k]
			ls.Steps = append(append([]Clause{}, ls.Steps...), cl...)
			c2.Loops[k] = ls
		}
		// inner `for _, c := range x.Cases` loops: the marks made so far are an
		// automatic (checked) invariant, so that the element's step clause about
		// every case body can be concluded at the inner loop's exit
		for _, tr := range ctr.Traverses {
			if tr.Mode != "stepmark" && tr.Mode != "mark" {
				continue
			}
			se := &specEnv{f: &frame{e: e, fn: fn}, pkg: fn.Pkg.Pkg}
			h := se.typeByName(tr.Handle)
			if _, ok := h.Underlying().(*types.Slice); !ok {
				continue
			}
			for k, cls := range autoRangeInvariants(fn, tr, h, ctr.Except) {
				if k == tr.Loop && tr.Mode == "stepmark" {
					continue
				}
				ls := c2.Loops[k]
				ls.Invariants = append(append([]Clause{}, ls.Invariants...), cls...)
				c2.Loops[k] = ls
			}
		}
		f.ctr = &c2
	}
	requires := append(append([]Clause{}, ctr.Requires...), dreq...)
	ensures := append(append([]Clause{}, ctr.Ensures...), dens...)
	for _, r := range requires {
		e.assume("true", f.evalSpec(r.Src, st0, nil, st0))
	}
	// vacuity guard: the precondition must be satisfiable
	e.oblige("cover", name+"/cover", "requires", "true", "false")
	for _, lm := range ctr.Lemmas {
		f.lemma(lm, st0)
	}
	if ctr.Trusted {
		e.noteAssumed("trusted contract (body not checked): " + name)
		return e
	}
	f.exec("true", st0)
	if len(f.rets) == 0 {
		panic("function has no reachable return")
	}
	// one obligation per clause over the merged exit state (linear in the
	// function instead of clauses x returns)
	{
		var pairs []condState
		var rc []string
		for _, r := range f.rets {
			pairs = append(pairs, condState{r.reach, r.st})
			rc = append(rc, r.reach)
		}
		mst := e.mergeStates(pairs)
		anyRet := e.define("reach_ret", "Bool", orTerms(rc))
		env := map[string]Val{}
		nres := fn.Signature.Results().Len()
		for i := 0; i < nres; i++ {
			t := fn.Signature.Results().At(i).Type()
			var term string
			for k := len(f.rets) - 1; k >= 0; k-- {
				rv := f.rets[k].vals[i]
				if rv.term == interiorPtr {
					panic("function returns an interior pointer")
				}
				if term == "" {
					term = rv.term
				} else {
					term = fmt.Sprintf("(ite %s %s %s)", f.rets[k].reach, rv.term, term)
				}
			}
			v := Val{term: e.define("result", e.sc.sortOf(t), term), typ: t}
			env[fmt.Sprintf("result%d", i)] = v
			if nres == 1 {
				env["result"] = v
			}
		}
		f.cur = nil
		f.curSt = mst
		for _, en := range ensures {
			o := e.oblige("post", fmt.Sprintf("%s/post:%s", name, en.Label), "", anyRet, f.evalSpec(en.Src, mst, env, st0))
			o.Slow = en.Slow
		}
		if ctr.HasAssigns || ctr.Pure {
			f.frameObligation(retPoint{reach: anyRet, st: mst}, st0, 0)
		}
	}
	// binding guard: every at-clause and every loop clause must have attached
	// to something in the body, otherwise the contract is silently vacuous there
	for callee, cls := range ctr.CallAsserts {
		for _, c := range cls {
			found := false
			for _, o := range e.obls {
				// the group is <fn>/at@<callee short name>:<label>; the clause must have
				// attached under its own callee, not merely share a label with one that did
				cn := callee
				if i := strings.Index(cn, "#"); i >= 0 {
					cn = cn[:i]
				}
				if i := strings.LastIndex(cn, "."); i >= 0 && !strings.HasPrefix(cn, "(") {
					cn = cn[i+1:]
				}
				if i := strings.LastIndex(cn, ")."); i >= 0 {
					cn = cn[i+2:]
				}
				if o.Kind == "at" && strings.HasSuffix(o.Group, ":"+c.Label) && strings.Contains(o.Group, "/at@"+cn+":") {
					found = true
				}
			}
			if !found {
				panic("at-clause [" + c.Label + "] matches no call of " + callee + " in the body")
			}
		}
	}
	nloops := len(loopOrdinals(fn, backEdges(fn)))
	for k := range ctr.Loops {
		if k < 1 || k > nloops {
			panic(fmt.Sprintf("loop %d clause: the function has %d loops", k, nloops))
		}
	}
	for ri, r := range f.rets {
		// cover: this return must be reachable under the precondition
		e.oblige("cover", name+"/cover", fmt.Sprintf("ret%d", ri), "true", fmt.Sprintf("(not %s)", r.reach))
	}
	if len(f.rets) == 0 {
		panic("function has no reachable return")
	}
	return e
}

type paramSym struct {
	name, term string
	typ        types.Type
}

// assumeRangeDeep adds the Go type invariants of a value: integer ranges (int
// mode), well-formed slice and string headers, recursively through struct fields.
func (e *Engine) assumeRangeDeep(reach string, v Val, depth int) {
	if strings.Contains(v.term, "q_") {
		return // mentions a bound variable
	}
	switch u := v.typ.Underlying().(type) {
	case *types.Struct:
		if depth >= 3 {
			return
		}
		sn := e.sc.sortOf(v.typ)
		for i := 0; i < u.NumFields(); i++ {
			ft := u.Field(i).Type()
			switch ft.Underlying().(type) {
			case *types.Basic, *types.Slice, *types.Struct, *types.Pointer:
				e.assumeRangeDeep(reach, Val{term: fmt.Sprintf("(%s_f%d %s)", sn, i, v.term), typ: ft}, depth+1)
			}
		}
	default:
		e.assumeRange(reach, v)
	}
}

// lemma proves a pure fact over the ghost functions (optionally by induction) and
// then assumes it for the rest of the function.
func (f *frame) lemma(lm Lemma, st0 *State) {
	e := f.e
	g := fmt.Sprintf("%s/lemma:%s", f.name, lm.Label)
	if lm.Var == "" {
		t := f.evalSpec(lm.Src, st0, nil, st0)
		e.oblige("lemma", g, "", "true", t)
		e.assume("true", t)
		return
	}
	intT := types.Typ[types.Int]
	k := e.declare("ind_"+lm.Var, e.idxSort())
	kv := Val{term: k, typ: intT}
	lo := f.evalSpecTerm(lm.Lo, st0, nil)
	body := lm.Src
	trig := ""
	if strings.HasPrefix(body, "{") {
		i := strings.Index(body, "}")
		trig = body[1:i]
		body = strings.TrimSpace(body[i+1:])
	}
	base := f.evalSpec(body, st0, map[string]Val{lm.Var: lo}, st0)
	e.oblige("lemma", g, "base", "true", base)
	pk := f.evalSpec(body, st0, map[string]Val{lm.Var: kv}, st0)
	pk1 := f.evalSpec(body, st0, map[string]Val{lm.Var: {term: e.idxAdd(k, e.idxLit(1)), typ: intT}}, st0)
	var ge string
	if e.sc.arith == "int" {
		ge = fmt.Sprintf("(>= %s %s)", k, lo.term)
	} else {
		ge = fmt.Sprintf("(and (bvsge %s %s) (bvslt %s %s))", k, lo.term, k, bvLit(maxLen, 64))
	}
	e.oblige("lemma", g, "step", fmt.Sprintf("(and %s %s)", ge, pk), pk1)
	// assume: forall k >= lo :: P(k)
	q := "forall " + lm.Var + " int "
	if trig != "" {
		q += "{" + trig + "} "
	}
	q += ":: " + lm.Var + " >= " + lm.Lo + " ==> (" + body + ")"
	e.assume("true", f.evalSpec(q, st0, nil, st0))
}

func (f *frame) evalSpecTerm(src string, st *State, extra map[string]Val) Val {
	se := &specEnv{f: f, st: st, pre: f.pre, names: f.mergedEnv(extra)}
	if f.fn.Pkg != nil {
		se.pkg = f.fn.Pkg.Pkg
	}
	v := se.evalAny(src)
	if v.typ == untypedInt {
		v = se.coerce(v, types.Typ[types.Int])
	}
	return v
}

// frameObligation: at return r, every pre-existing location outside the
// assigns clause holds its pre-state value.
func (f *frame) frameObligation(r retPoint, st0 *State, ri int) {
	e := f.e
	ctr := f.ctr
	g := f.name + "/frame"
	whole := map[string]bool{}
	cellsOf := map[string][]string{}             // heap -> param terms fully assignable
	fieldsOf := map[string]map[string][]string{} // heap -> param term -> assignable fields
	ptypes := map[string]types.Type{}
	star := false
	for _, a := range ctr.Assigns {
		switch {
		case a == "*":
			star = true
		case strings.HasPrefix(a, "H_") || strings.HasPrefix(a, "HA_"):
			ca, ok := e.canonHeap(a)
			if !ok {
				panic("assigns: unknown heap " + a)
			}
			whole[ca] = true
		default:
			pn, fld := a, "*"
			if strings.HasPrefix(a, "*") {
				pn = a[1:]
			} else if i := strings.Index(a, "."); i > 0 {
				pn, fld = a[:i], a[i+1:]
			}
			pv, ok := f.params[pn]
			if !ok {
				panic("assigns: no parameter " + pn)
			}
			pt, ok := pv.typ.Underlying().(*types.Pointer)
			if !ok {
				panic("assigns: parameter " + pn + " is not a pointer")
			}
			hn, hs := e.heapName(pt.Elem(), false)
			e.hsort[hn] = hs
			ptypes[hn] = pt.Elem()
			if fld == "*" {
				cellsOf[hn] = append(cellsOf[hn], pv.term)
			} else {
				if fieldsOf[hn] == nil {
					fieldsOf[hn] = map[string][]string{}
				}
				fieldsOf[hn][pv.term] = append(fieldsOf[hn][pv.term], fld)
			}
		}
	}
	if star {
		return
	}
	if r.st.epoch != 0 {
		e.oblige("frame", g, fmt.Sprintf("ret%d", ri), r.reach, "false")
		return
	}
	var conj []string
	for _, hn := range sortedKeys(r.st.heaps) {
		if strings.HasPrefix(hn, "G_") {
			continue // ghost heaps (map sizes, callback sets) are outside the frame
		}
		end := r.st.heaps[hn]
		pre := epochTerm(hn, 0)
		if end == pre || whole[hn] {
			continue
		}
		e.declOnce(pre, e.hsort[hn])
		var excl []string
		excl = append(excl, cellsOf[hn]...)
		for _, p := range sortedKeys(fieldsOf[hn]) {
			excl = append(excl, p)
		}
		cond := "(and (> l!f 0) (< l!f alloc0)"
		for _, x := range excl {
			cond += fmt.Sprintf(" (not (= l!f %s))", x)
		}
		cond += ")"
		conj = append(conj, fmt.Sprintf("(forall ((l!f Int)) (=> %s (= (select %s l!f) (select %s l!f))))", cond, end, pre))
		for _, p := range sortedKeys(fieldsOf[hn]) {
			flds := fieldsOf[hn][p]
			stT, ok := ptypes[hn].Underlying().(*types.Struct)
			if !ok {
				continue
			}
			sn := e.sc.sortOf(ptypes[hn])
			for i := 0; i < stT.NumFields(); i++ {
				hit := false
				for _, fl := range flds {
					if fl == stT.Field(i).Name() {
						hit = true
					}
				}
				if !hit {
					conj = append(conj, fmt.Sprintf("(= (%s_f%d (select %s %s)) (%s_f%d (select %s %s)))", sn, i, end, p, sn, i, pre, p))
				}
			}
		}
	}
	prop := "true"
	if len(conj) > 0 {
		prop = "(and " + strings.Join(conj, " ") + ")"
	}
	e.oblige("frame", g, fmt.Sprintf("ret%d", ri), r.reach, prop)
}

// autoRangeInvariants finds the range loops over a slice of structs that hold
// the handle type and returns, per loop ordinal, the invariant "the handle
// fields of the elements processed so far are marked".
func autoRangeInvariants(fn *ssa.Function, tr Traverse, h types.Type, except []string) map[int][]Clause {
	out := map[int][]Clause{}
	be := backEdges(fn)
	ords := loopOrdinals(fn, be)
	for hdrIdx, k := range ords {
		hb := fn.Blocks[hdrIdx]
		var ri *ssa.Phi
		for _, ins := range hb.Instrs {
			if phi, ok := ins.(*ssa.Phi); ok && phi.Comment == "rangeindex" {
				ri = phi
			}
		}
		if ri == nil {
			continue
		}
		// the incremented index (rangeindex + 1)
		var inc ssa.Value
		for _, ins := range hb.Instrs {
			if b, ok := ins.(*ssa.BinOp); ok && b.X == ri {
				inc = b
			}
		}
		if inc == nil {
			continue
		}
		seen := map[string]bool{}
		for _, b := range fn.Blocks {
			for _, ins := range b.Instrs {
				var x ssa.Value
				switch v := ins.(type) {
				case *ssa.IndexAddr:
					if v.Index == inc {
						x = v.X
					}
				case *ssa.Index:
					if v.Index == inc {
						x = v.X
					}
				}
				if x == nil {
					continue
				}
				sl, ok := x.Type().Underlying().(*types.Slice)
				if !ok {
					continue
				}
				st, ok := sl.Elem().Underlying().(*types.Struct)
				if !ok {
					continue
				}
				// name the ranged slice by a register that is available at the loop header
				xname := ""
				if xi, isInstr := x.(ssa.Instruction); !isInstr || xi.Block().Dominates(hb) && xi.Block() != hb {
					xname = "ssa_" + x.Name()
				} else if fl, ok := x.(*ssa.Field); ok {
					if yi, isInstr := fl.X.(ssa.Instruction); !isInstr || yi.Block().Dominates(hb) && yi.Block() != hb {
						yst := fl.X.Type().Underlying().(*types.Struct)
						xname = "ssa_" + fl.X.Name() + "." + yst.Field(fl.Field).Name()
					}
				}
				if xname == "" {
					// a load of a field of a local struct cell: *(&cell.F)
					if ld, ok := x.(*ssa.UnOp); ok && ld.Op == token.MUL {
						if fa, ok := ld.X.(*ssa.FieldAddr); ok {
							if yi, isInstr := fa.X.(ssa.Instruction); !isInstr || yi.Block().Dominates(hb) && yi.Block() != hb {
								if pt, ok := fa.X.Type().Underlying().(*types.Pointer); ok {
									if yst, ok := pt.Elem().Underlying().(*types.Struct); ok {
										xname = "ssa_" + fa.X.Name() + "." + yst.Field(fa.Field).Name()
									}
								}
							}
						}
					}
				}
				if xname == "" {
					continue
				}
				skip := false
				for _, ex := range except {
					if i := strings.LastIndex(xname, "."); i >= 0 && (strings.HasSuffix(ex, xname[i:]) || ex == xname[i+1:]) {
						skip = true // the path through this slice is excluded from the traversal
					}
				}
				if skip {
					continue
				}
				for i := 0; i < st.NumFields(); i++ {
					if sameHandle(st.Field(i).Type(), h) && !seen[x.Name()+st.Field(i).Name()] {
						seen[x.Name()+st.Field(i).Name()] = true
						elem := xname + "[j]"
						if tr.Mode == "mark" {
							elem = "oldelem(" + xname + ", j)"
						}
						mark := "(" + strings.ReplaceAll(tr.Expr, "$", elem+"."+st.Field(i).Name()) + ")"
						out[k] = append(out[k], Clause{Label: "auto-marked:" + st.Field(i).Name(), Src: "forall j int :: 0 <= j && j <= rangeindex ==> " + mark})
					}
				}
			}
		}
	}
	return out
}

// mapRangeObligation implements `nomaprange`: what the function builds depends
// on the order of its loops, so none of them may follow Go's randomised map
// iteration order (the keys-then-sort idiom excepted). Decided on the SSA of the
// body and of its function literals; needs no symbolic execution.
func mapRangeObligation(e *Engine, fn *ssa.Function, name string) {
	found := ""
	var scan func(g *ssa.Function)
	scan = func(g *ssa.Function) {
		for _, b := range g.Blocks {
			for _, ins := range b.Instrs {
				if r, ok := ins.(*ssa.Range); ok {
					if _, isMap := r.X.Type().Underlying().(*types.Map); isMap && found == "" && !onlyCollectsKeys(r) {
						found = g.Prog.Fset.Position(r.Pos()).String()
					}
				}
			}
		}
		for _, a := range g.AnonFuncs {
			scan(a)
		}
	}
	scan(fn)
	prop := "true"
	if found != "" {
		prop = "false"
	}
	e.oblige("order", name+"/order:no-map-range", "", "true", prop)
}

// onlyCollectsKeys: the loop over map range r does nothing but append to slices
// (the keys-then-sort idiom): its body has no call except the append builtin,
// no map update and no store except into the argument array of an append.
func onlyCollectsKeys(r *ssa.Range) bool {
	var next *ssa.Next
	if r.Referrers() != nil {
		for _, u := range *r.Referrers() {
			if n, ok := u.(*ssa.Next); ok {
				next = n
			}
		}
	}
	if next == nil {
		return false
	}
	hdr := next.Block()
	reaches := func(from *ssa.BasicBlock) bool {
		seen := map[*ssa.BasicBlock]bool{}
		work := []*ssa.BasicBlock{from}
		for len(work) > 0 {
			b := work[len(work)-1]
			work = work[:len(work)-1]
			for _, s := range b.Succs {
				if s == hdr {
					return true
				}
				if !seen[s] {
					seen[s] = true
					work = append(work, s)
				}
			}
		}
		return false
	}
	for _, b := range hdr.Parent().Blocks {
		if b != hdr && !(hdr.Dominates(b) && reaches(b)) {
			continue
		}
		for _, ins := range b.Instrs {
			switch x := ins.(type) {
			case *ssa.Call:
				if bi, ok := x.Call.Value.(*ssa.Builtin); !ok || (bi.Name() != "append" && bi.Name() != "len") {
					return false
				}
			case *ssa.MapUpdate, *ssa.Go, *ssa.Defer, *ssa.Send, *ssa.Return:
				return false
			case *ssa.Store:
				ok := false
				if ia, isIA := x.Addr.(*ssa.IndexAddr); isIA {
					if a, isA := ia.X.(*ssa.Alloc); isA && a.Comment == "varargs" {
						ok = true
					}
				}
				if !ok {
					return false
				}
			}
		}
	}
	return true
}
