package main

import (
	"fmt"
	"go/ast"
	"go/constant"
	"go/token"
	"go/types"
	"os"
	"sort"
	"strings"

	"golang.org/x/tools/go/ssa"
)

// frame is the symbolic execution of one function activation.
type frame struct {
	e      *Engine
	fn     *ssa.Function
	parent *frame
	vals   map[ssa.Value]Val
	reach  map[*ssa.BasicBlock]string
	exitSt map[*ssa.BasicBlock]*State
	edge   map[[2]int]string // (from,to) -> condition
	ctr    *Contract
	pre    *State // state at function entry (for old())
	params map[string]Val
	// return collection
	rets     []retPoint
	name     string
	hdrs     map[int]*hdrInfo
	named    map[string]Val
	defs     []nameDef
	locals   []localCell
	deferred []deferRec
	cur      *ssa.BasicBlock
	curSt    *State
	prevHdr  *hdrInfo
	callOrd  map[string]int
	tuples   map[ssa.Value][]Val
	safety   bool // emit nopanic obligations
}

type localCell struct {
	heap, loc string
	alloc     *ssa.Alloc
}

type nameDef struct {
	name string
	blk  *ssa.BasicBlock
	val  Val
}

// lookupName resolves a source-level local at the current program point: the
// latest definition (phi or DebugRef) in the nearest dominating block.
func (f *frame) lookupName(name string) (Val, bool) {
	return f.lookupNameFrom(name, f.cur)
}

// lookupNameFrom resolves a source-level local as seen at the end of block
// from (and the blocks that dominate it).
func (f *frame) lookupNameFrom(name string, from *ssa.BasicBlock) (Val, bool) {
	if from == nil {
		return Val{}, false
	}
	for b := from; b != nil; b = b.Idom() {
		for i := len(f.defs) - 1; i >= 0; i-- {
			if f.defs[i].name == name && f.defs[i].blk == b {
				return f.defs[i].val, true
			}
		}
	}
	return Val{}, false
}

type retPoint struct {
	reach string
	vals  []Val
	st    *State
	blk   int
}

func (f *frame) val(v ssa.Value) Val {
	if x, ok := f.vals[v]; ok {
		return x
	}
	switch c := v.(type) {
	case *ssa.Const:
		if c.Value == nil {
			return Val{term: f.e.sc.zero(c.Type()), typ: c.Type()}
		}
		if b, ok := c.Type().Underlying().(*types.Basic); ok && b.Info()&types.IsString != 0 {
			s := constant.StringVal(c.Value)
			return Val{term: f.e.strLit(s), typ: c.Type(), lit: &s}
		}
		return Val{term: f.e.constTerm(c.Value, c.Type()), typ: c.Type()}
	case *ssa.Global:
		// address of a package-level variable: a fixed pre-existing cell
		cellT := c.Type().(*types.Pointer).Elem()
		loc := "|g:" + c.String() + "|"
		if !f.e.declared[loc] {
			f.e.declOnce(loc, "Int")
			f.e.decls = append(f.e.decls, fmt.Sprintf("(assert (and (> %s 0) (< %s alloc0)))", loc, loc))
		}
		if at, ok := cellT.Underlying().(*types.Array); ok {
			return Val{term: loc, typ: c.Type(), addr: &Addr{cell: loc, cellT: at.Elem(), backing: true}}
		}
		return Val{term: loc, typ: c.Type(), addr: &Addr{cell: loc, cellT: cellT}}
	case *ssa.Function:
		return Val{term: "0", typ: c.Type(), clo: &closureVal{fn: c}}
	case *ssa.Builtin:
		return Val{term: "0", typ: c.Type()}
	}
	panic(fmt.Sprintf("%s: no value for %s (%T)", f.name, v.Name(), v))
}

// asAddr views a pointer value as an address.
func (f *frame) asAddr(v Val) *Addr {
	if v.addr != nil {
		return v.addr
	}
	pt, ok := v.typ.Underlying().(*types.Pointer)
	if !ok {
		panic("asAddr on non-pointer " + v.typ.String())
	}
	if v.term == interiorPtr {
		panic("pointer value lost its address path")
	}
	elem := pt.Elem()
	if at, ok := elem.Underlying().(*types.Array); ok {
		return &Addr{cell: v.term, cellT: at.Elem(), backing: true}
	}
	return &Addr{cell: v.term, cellT: elem}
}

func backEdges(fn *ssa.Function) map[[2]int]bool {
	be := map[[2]int]bool{}
	for _, b := range fn.Blocks {
		for _, s := range b.Succs {
			if s.Dominates(b) {
				be[[2]int{b.Index, s.Index}] = true
			}
		}
	}
	return be
}

func topoOrder(fn *ssa.Function, be map[[2]int]bool) []*ssa.BasicBlock {
	indeg := map[int]int{}
	for _, b := range fn.Blocks {
		for _, s := range b.Succs {
			if !be[[2]int{b.Index, s.Index}] {
				indeg[s.Index]++
			}
		}
	}
	var order []*ssa.BasicBlock
	var ready []*ssa.BasicBlock
	ready = append(ready, fn.Blocks[0])
	for len(ready) > 0 {
		sort.Slice(ready, func(i, j int) bool { return ready[i].Index < ready[j].Index })
		b := ready[0]
		ready = ready[1:]
		order = append(order, b)
		for _, s := range b.Succs {
			if be[[2]int{b.Index, s.Index}] {
				continue
			}
			indeg[s.Index]--
			if indeg[s.Index] == 0 {
				ready = append(ready, s)
			}
		}
	}
	return order
}

func orTerms(ts []string) string {
	if len(ts) == 0 {
		return "false"
	}
	if len(ts) == 1 {
		return ts[0]
	}
	return "(or " + strings.Join(ts, " ") + ")"
}

type condState struct {
	cond string
	st   *State
}

// mergeStates builds the state at a join from (cond, state) pairs.
func (e *Engine) mergeStates(pairs []condState) *State {
	if len(pairs) == 1 {
		return pairs[0].st.clone()
	}
	sameEpoch := true
	for _, p := range pairs[1:] {
		if p.st.epoch != pairs[0].st.epoch {
			sameEpoch = false
		}
	}
	out := &State{heaps: map[string]string{}, epoch: pairs[0].st.epoch}
	names := map[string]bool{}
	if sameEpoch {
		for _, p := range pairs {
			for n := range p.st.heaps {
				names[n] = true
			}
		}
	} else {
		// the branches disagree about the base of untouched heaps: materialise
		// every heap the engine has met so far, start a fresh epoch for the rest
		for n := range e.hsort {
			names[n] = true
		}
		e.epochN++
		out.epoch = e.epochN
	}
	for _, n := range sortedKeys(names) {
		same := true
		var first string
		terms := make([]string, len(pairs))
		for i, p := range pairs {
			t, ok := p.st.heaps[n]
			if !ok {
				t = epochTerm(n, p.st.epoch)
				e.declOnce(t, e.hsort[n])
			}
			terms[i] = t
			if i == 0 {
				first = t
			} else if t != first {
				same = false
			}
		}
		if same {
			if !sameEpoch || first != epochTerm(n, out.epoch) {
				out.heaps[n] = first
			}
			continue
		}
		// ite chain
		var term string
		for i := len(pairs) - 1; i >= 0; i-- {
			if term == "" {
				term = terms[i]
			} else {
				term = fmt.Sprintf("(ite %s %s %s)", pairs[i].cond, terms[i], term)
			}
		}
		out.heaps[n] = e.define(n, e.hsort[n], term)
	}
	return out
}

// havocAll forgets everything about the heap except the content of the
// non-escaping local cells of this activation chain that are not in written
// (written == nil: keep all of them).
func (f *frame) havocAll(st *State, reach string, written map[*ssa.Alloc]bool) {
	e := f.e
	type keep struct{ heap, loc, old string }
	var keeps []keep
	for fr := f; fr != nil; fr = fr.parent {
		for _, lc := range fr.locals {
			if written != nil && written[lc.alloc] {
				continue
			}
			keeps = append(keeps, keep{lc.heap, lc.loc, e.heapByName(st, lc.heap)})
		}
	}
	// ghost sets of visited/marked items only grow and are not reachable from
	// code that does not name the traversal function: they survive a havoc
	ghosts := map[string]string{}
	for n, t := range st.heaps {
		if strings.HasPrefix(n, "G_") && n != mapLenHeap {
			ghosts[n] = t
		}
	}
	e.epochN++
	st.epoch = e.epochN
	st.heaps = map[string]string{}
	for n, t := range ghosts {
		st.heaps[n] = t
	}
	for _, k := range keeps {
		nh := e.heapByName(st, k.heap)
		e.assume(reach, fmt.Sprintf("(= (select %s %s) (select %s %s))", nh, k.loc, k.old, k.loc))
	}
}

func loopOrdinals(fn *ssa.Function, be map[[2]int]bool) map[int]int {
	loopOrd := map[int]int{}
	var hs []int
	seen := map[int]bool{}
	for k := range be {
		if !seen[k[1]] {
			seen[k[1]] = true
			hs = append(hs, k[1])
		}
	}
	// order by source position of the header block's first instruction with a
	// position, falling back to block index: ordinals follow the source order
	sort.Slice(hs, func(i, j int) bool {
		pi, pj := blockPos(fn.Blocks[hs[i]]), blockPos(fn.Blocks[hs[j]])
		if pi != pj && pi != token.NoPos && pj != token.NoPos {
			return pi < pj
		}
		return hs[i] < hs[j]
	})
	for i, h := range hs {
		loopOrd[h] = i + 1
	}
	return loopOrd
}

func blockPos(b *ssa.BasicBlock) token.Pos {
	for _, ins := range b.Instrs {
		if _, ok := ins.(*ssa.DebugRef); ok {
			continue
		}
		if p := ins.Pos(); p != token.NoPos {
			return p
		}
	}
	return token.NoPos
}

// exec runs the function body. Returns are collected in f.rets.
func (f *frame) exec(entryReach string, st0 *State) {
	e := f.e
	fn := f.fn
	if fn.Recover != nil && usesRecover(fn) {
		panic("defer/recover is outside the subset")
	}
	be := backEdges(fn)
	order := topoOrder(fn, be)
	loopOrd := loopOrdinals(fn, be)
	for _, b := range order {
		var reach string
		var st *State
		if b.Index == 0 {
			reach, st = entryReach, st0.clone()
		} else {
			var conds []string
			var pairs []condState
			for _, p := range b.Preds {
				if be[[2]int{p.Index, b.Index}] {
					continue
				}
				if _, ok := f.reach[p]; !ok {
					continue // unreachable pred (e.g. after panic)
				}
				c := fmt.Sprintf("(and %s %s)", f.reach[p], f.edge[[2]int{p.Index, b.Index}])
				conds = append(conds, c)
				pairs = append(pairs, condState{c, f.exitSt[p]})
			}
			if len(pairs) == 0 {
				continue
			}
			reach = e.define("reach_"+fmt.Sprint(b.Index), "Bool", orTerms(conds))
			st = e.mergeStates(pairs)
		}
		isHeader := loopOrd[b.Index] > 0
		var spec LoopSpec
		if isHeader {
			if f.ctr != nil {
				spec = f.ctr.Loops[loopOrd[b.Index]]
			}
			// 1. invariant on entry: phis take their entry-edge values
			entryEnv := map[string]Val{}
			for _, ins := range b.Instrs {
				phi, ok := ins.(*ssa.Phi)
				if !ok {
					break
				}
				var term string
				var one Val
				for i, p := range b.Preds {
					if be[[2]int{p.Index, b.Index}] {
						continue
					}
					if _, ok := f.reach[p]; !ok {
						continue
					}
					one = f.val(phi.Edges[i])
					v := one.term
					if term == "" {
						term = v
					} else {
						term = fmt.Sprintf("(ite (and %s %s) %s %s)", f.reach[p], f.edge[[2]int{p.Index, b.Index}], v, term)
					}
				}
				entryEnv[phi.Comment] = Val{term: term, typ: phi.Type()}
			}
			f.cur = b
			// go/ssa lowers `for i := range s` to a phi named rangeindex that starts
			// at -1: its lower bound is an automatic (checked) invariant
			for _, ins := range b.Instrs {
				if phi, ok := ins.(*ssa.Phi); ok && phi.Comment == "rangeindex" {
					has := false
					for _, inv := range spec.Invariants {
						if inv.Label == "auto-rangeindex" {
							has = true
						}
					}
					if !has {
						spec.Invariants = append(append([]Clause{}, spec.Invariants...), Clause{Label: "auto-rangeindex", Src: "rangeindex >= -1 && rangeindex <= 140737488355328"})
					}
				}
			}
			for _, inv := range spec.Invariants {
				t := f.evalSpec(inv.Src, st, entryEnv, nil)
				g := fmt.Sprintf("%s/loop%d/inv:%s", f.name, loopOrd[b.Index], inv.Label)
				o := e.oblige("inv", g, "init", reach, t)
				o.Slow = inv.Slow
			}
			// 2. havoc phis and heaps, assume invariant
			e.tick()
			mod, all, written := f.loopModSet(b, be)
			if all {
				f.havocAll(st, reach, written)
			} else {
				var keeps [][3]string
				for fr := f; fr != nil; fr = fr.parent {
					for _, lc := range fr.locals {
						if mod[lc.heap] != nil && mod[lc.heap].whole && !written[lc.alloc] {
							keeps = append(keeps, [3]string{lc.heap, lc.loc, e.heapByName(st, lc.heap)})
						}
					}
				}
				for _, n := range sortedKeys(mod) {
					if strings.HasPrefix(n, "G_") && n != mapLenHeap {
						// a ghost set of visited/marked items only grows: whatever was in
						// it before the loop is still in it at every later iteration
						before := e.heapByName(st, n)
						f.havocLoopHeap(st, n, mod[n])
						ks := strings.TrimSuffix(strings.TrimPrefix(e.hsort[n], "(Array "), " Bool)")
						e.assume(reach, fmt.Sprintf("(forall ((x!g %s)) (! (=> (select %s x!g) (select %s x!g)) :pattern ((select %s x!g))))", ks, before, st.heaps[n], st.heaps[n]))
						continue
					}
					f.havocLoopHeap(st, n, mod[n])
				}
				for _, k := range keeps {
					e.assume(reach, fmt.Sprintf("(= (select %s %s) (select %s %s))", st.heaps[k[0]], k[1], k[2], k[1]))
				}
			}
			f.reach[b] = reach
			for _, ins := range b.Instrs {
				phi, ok := ins.(*ssa.Phi)
				if !ok {
					break
				}
				if _, isPtr := phi.Type().Underlying().(*types.Pointer); isPtr {
					for _, ed := range phi.Edges {
						if x, ok := f.vals[ed]; ok && x.addr != nil && x.term == interiorPtr {
							panic("loop-carried interior pointer")
						}
					}
				}
				f.vals[phi] = Val{term: e.declare("phi_"+phi.Comment, e.sc.sortOf(phi.Type())), typ: phi.Type()}
				e.assumeRange(reach, f.vals[phi])
			}
			hdrEnv := map[string]Val{}
			for _, ins := range b.Instrs {
				if phi, ok := ins.(*ssa.Phi); ok {
					hdrEnv[phi.Comment] = f.vals[phi]
				}
			}
			for _, inv := range spec.Invariants {
				e.assume(reach, f.evalSpec(inv.Src, st, hdrEnv, nil))
			}
			f.loopHdr(b, spec, st, hdrEnv)
		}
		f.reach[b] = reach
		f.runBlock(b, st, be, loopOrd)
	}
}

// assumeRange adds the value-range facts that the SMT sort does not carry:
// in int mode a Go integer of a sized type lies in its type's range, and a
// slice header is well formed.
func (e *Engine) assumeRange(reach string, v Val) {
	switch u := v.typ.Underlying().(type) {
	case *types.Basic:
		if u.Info()&types.IsInteger != 0 && e.sc.arith == "int" {
			w, signed := intWidth(u)
			if w == 0 {
				return
			}
			lo, hi := "0", pow2(w)
			if signed {
				lo, hi = "(- "+pow2(w-1)+")", pow2(w-1)
			}
			e.assume(reach, fmt.Sprintf("(and (<= %s %s) (< %s %s))", lo, v.term, v.term, hi))
		}
		if u.Info()&types.IsString != 0 {
			e.assume(reach, e.wfSlice(v.term))
		}
	case *types.Slice:
		e.assume(reach, e.wfSlice(v.term))
		e.assume(reach, e.locBound(fmt.Sprintf("(s_base %s)", v.term)))
	case *types.Pointer:
		if v.term != interiorPtr {
			e.assume(reach, e.locBound(v.term))
		}
	}
}

const maxLen = 140737488355328 // 2^47: no Go slice is longer

func (e *Engine) wfSlice(t string) string {
	if e.sc.arith == "int" {
		return fmt.Sprintf("(and (<= 0 (s_off %s)) (<= 0 (s_len %s)) (<= (s_len %s) (s_cap %s)) (<= (+ (s_off %s) (s_cap %s)) %d) (>= (s_base %s) 0))", t, t, t, t, t, t, maxLen, t)
	}
	m := bvLit(maxLen, 64)
	return fmt.Sprintf("(and (bvule (s_len %s) (s_cap %s)) (bvule (s_cap %s) %s) (bvule (s_off %s) %s) (bvule (bvadd (s_off %s) (s_cap %s)) %s) (>= (s_base %s) 0))", t, t, t, m, t, m, t, t, m, t)
}

func pow2(n int) string { return new(bigInt).Lsh1(n) }

// modInfo describes what a loop may write in one heap: everything, or named
// fields of cells whose address is loop-invariant.
type modInfo struct {
	whole bool
	cells map[string]*cellMod // by cell term
}

type cellMod struct {
	whole   bool
	fields  map[int]bool
	typ     types.Type
	backing bool   // the cell is a backing array (content sort: Array idx elem)
	rawSort string // content sort given directly (map presence / value tables)
}

// loopModSet returns what may be written inside the natural loop of header h,
// whether an unknown effect occurs, and the local allocs written.
func (f *frame) loopModSet(h *ssa.BasicBlock, be map[[2]int]bool) (map[string]*modInfo, bool, map[*ssa.Alloc]bool) {
	e := f.e
	body := map[*ssa.BasicBlock]bool{h: true}
	var work []*ssa.BasicBlock
	for _, p := range h.Preds {
		if be[[2]int{p.Index, h.Index}] {
			work = append(work, p)
		}
	}
	for len(work) > 0 {
		b := work[len(work)-1]
		work = work[:len(work)-1]
		if body[b] {
			continue
		}
		body[b] = true
		work = append(work, b.Preds...)
	}
	mod := map[string]*modInfo{}
	written := map[*ssa.Alloc]bool{}
	all := false
	get := func(t types.Type, backing bool) *modInfo {
		n, s := e.heapName(t, backing)
		e.hsort[n] = s
		if mod[n] == nil {
			mod[n] = &modInfo{cells: map[string]*cellMod{}}
		}
		return mod[n]
	}
	touch := func(t types.Type, backing bool) { get(t, backing).whole = true }
	// invariantPtr: the pointer value is defined outside the loop and is a plain
	// (non-interior) pointer whose term is already known
	invariantPtr := func(v ssa.Value, depth int) (string, bool) {
		if depth != 0 {
			return "", false
		}
		switch x := v.(type) {
		case *ssa.Parameter, *ssa.FreeVar:
		case ssa.Instruction:
			if body[x.Block()] {
				return "", false
			}
		default:
			return "", false
		}
		val, ok := f.vals[v]
		if !ok || val.addr != nil || val.term == interiorPtr {
			return "", false
		}
		return val.term, true
	}
	cellField := func(p ssa.Value, field int, depth int) {
		pt, ok := p.Type().Underlying().(*types.Pointer)
		if !ok {
			all = dbgAll(1)
			return
		}
		if at, ok := pt.Elem().Underlying().(*types.Array); ok {
			touch(at.Elem(), true)
			return
		}
		mi := get(pt.Elem(), false)
		term, ok := invariantPtr(p, depth)
		if !ok {
			mi.whole = true
			return
		}
		cm := mi.cells[term]
		if cm == nil {
			cm = &cellMod{fields: map[int]bool{}, typ: pt.Elem()}
			mi.cells[term] = cm
		}
		if field < 0 {
			cm.whole = true
		} else {
			cm.fields[field] = true
		}
	}
	// sliceWrite: an element of slice value sv is written. When sv is (a
	// sub-slice of) a slice defined outside the loop only that backing array is
	// havocked, otherwise the whole element heap.
	var sliceWrite func(sv ssa.Value, elem types.Type, depth int)
	sliceWrite = func(sv ssa.Value, elem types.Type, depth int) {
		if sl, ok := sv.(*ssa.Slice); ok {
			if _, isSlice := sl.X.Type().Underlying().(*types.Slice); isSlice {
				sliceWrite(sl.X, elem, depth)
				return
			}
		}
		if depth == 0 {
			inv := false
			switch x := sv.(type) {
			case *ssa.Parameter, *ssa.FreeVar:
				inv = true
			case ssa.Instruction:
				inv = !body[x.Block()]
			}
			if val, ok := f.vals[sv]; ok && inv {
				mi := get(elem, true)
				base := fmt.Sprintf("(s_base %s)", val.term)
				if mi.cells[base] == nil {
					mi.cells[base] = &cellMod{whole: true, backing: true, typ: elem}
				}
				return
			}
		}
		touch(elem, true)
	}
	// mapWrite: an entry of map value mv is written or removed. When mv is defined
	// outside the loop only that map's tables are havocked, otherwise the tables of
	// every map of that type.
	mapWrite := func(mv ssa.Value, depth int) {
		hp, hv, _, ok := e.mapHeaps(mv.Type())
		if !ok {
			return
		}
		inv := false
		if depth == 0 {
			switch x := mv.(type) {
			case *ssa.Parameter, *ssa.FreeVar:
				inv = true
			case ssa.Instruction:
				inv = !body[x.Block()]
			}
		}
		val, known := f.vals[mv]
		for _, n := range []string{hp, hv} {
			if mod[n] == nil {
				mod[n] = &modInfo{cells: map[string]*cellMod{}}
			}
			if inv && known {
				if mod[n].cells[val.term] == nil {
					inner := strings.TrimSuffix(strings.TrimPrefix(e.hsort[n], "(Array Int "), ")")
					mod[n].cells[val.term] = &cellMod{whole: true, rawSort: inner}
				}
			} else {
				mod[n].whole = true
			}
		}
	}
	var root func(v ssa.Value, field int, depth int)
	root = func(v ssa.Value, field int, depth int) {
		switch a := v.(type) {
		case *ssa.FieldAddr:
			root(a.X, a.Field, depth)
			return
		case *ssa.IndexAddr:
			if sl, ok := a.X.Type().Underlying().(*types.Slice); ok {
				sliceWrite(a.X, sl.Elem(), depth)
				return
			}
			root(a.X, field, depth)
			return
		case *ssa.Alloc:
			written[a] = true
			if depth > 0 || body[a.Block()] {
				// a cell allocated inside the loop (or inside an inlined callee) is
				// fresh in every iteration: writing it changes nothing that exists
				// at the loop header
				return
			}
		}
		cellField(v, field, depth)
	}
	// closureOf resolves a called value to the closure body it must denote: a
	// MakeClosure, the content of a local cell that is stored exactly once with a
	// MakeClosure (go/ssa's form for `mark := func…`), or a function-typed
	// parameter of an inlined callee whose argument resolved that way.
	penv := map[*ssa.Parameter]*ssa.Function{}
	fvenv := map[*ssa.FreeVar]ssa.Value{}
	var closureOf func(v ssa.Value) *ssa.Function
	closureOf = func(v ssa.Value) *ssa.Function {
		switch x := v.(type) {
		case *ssa.MakeClosure:
			fn, _ := x.Fn.(*ssa.Function)
			if fn != nil {
				for i, b := range x.Bindings {
					if i < len(fn.FreeVars) {
						fvenv[fn.FreeVars[i]] = b
					}
				}
			}
			return fn
		case *ssa.Function:
			return x
		case *ssa.Parameter:
			return penv[x]
		case *ssa.UnOp:
			cell := x.X
			if fv, ok := cell.(*ssa.FreeVar); ok {
				cell = fvenv[fv] // the captured variable's cell in the enclosing function
			}
			a, ok := cell.(*ssa.Alloc)
			if !ok || x.Op != token.MUL || a.Referrers() == nil {
				return nil
			}
			var fn *ssa.Function
			n := 0
			for _, r := range *a.Referrers() {
				if st, ok := r.(*ssa.Store); ok && st.Addr == a {
					n++
					fn = closureOf(st.Val)
				}
			}
			if n == 1 {
				return fn
			}
		}
		return nil
	}
	var scan func(fn *ssa.Function, blocks map[*ssa.BasicBlock]bool, depth int)
	scan = func(fn *ssa.Function, blocks map[*ssa.BasicBlock]bool, depth int) {
		for _, b := range fn.Blocks {
			if blocks != nil && !blocks[b] {
				continue
			}
			for _, ins := range b.Instrs {
				switch v := ins.(type) {
				case *ssa.Store:
					root(v.Addr, -1, depth)
				case *ssa.Alloc:
					if blocks != nil {
						written[v] = true
					}
				case *ssa.MakeSlice:
					touch(v.Type().Underlying().(*types.Slice).Elem(), true)
				case *ssa.MapUpdate:
					mapWrite(v.Map, depth)
				case *ssa.Convert:
					if sl, ok := v.Type().Underlying().(*types.Slice); ok {
						touch(sl.Elem(), true)
					}
				case *ssa.Call:
					if bi, ok := v.Call.Value.(*ssa.Builtin); ok {
						switch bi.Name() {
						case "append", "copy", "clear":
							if sl, ok := v.Call.Args[0].Type().Underlying().(*types.Slice); ok {
								touch(sl.Elem(), true)
							}
							if _, ok := v.Call.Args[0].Type().Underlying().(*types.Map); ok {
								mapWrite(v.Call.Args[0], depth)
							}
						case "delete":
							mapWrite(v.Call.Args[0], depth)
						}
						continue
					}
					callee := v.Call.StaticCallee()
					if mc, ok := v.Call.Value.(*ssa.MakeClosure); ok {
						closureOf(mc) // registers the bindings of its free variables
					}
					if callee == nil {
						if pv, ok := f.vals[v.Call.Value]; ok && depth == 0 {
							if pv.uf != "" {
								continue // pure function parameter
							}
							if pv.cb != "" {
								n := "G_" + pv.cb
								if mod[n] == nil {
									mod[n] = &modInfo{cells: map[string]*cellMod{}}
								}
								mod[n].whole = true
								continue
							}
						}
						// a closure held in a local cell or passed down to an inlined helper:
						// its body is what runs; anything else is conservative
						if cf := closureOf(v.Call.Value); cf != nil && cf.Blocks != nil && depth < 4 {
							scan(cf, nil, depth+1)
							continue
						}
						if os.Getenv("GOVC_DEBUG") != "" {
							fmt.Fprintf(os.Stderr, "loopmod: unresolved call %s in %s (value %T %s)\n", v, fn.Name(), v.Call.Value, v.Call.Value)
						}
						all = dbgAll(2)
						continue
					}
					if rc := f.rootCtr(); rc != nil {
						ghost := false
						for cn, set := range rc.GhostCalls {
							if shortFn(callee) == cn || callee.Name() == cn {
								n := "G_" + set
								if mod[n] == nil {
									mod[n] = &modInfo{cells: map[string]*cellMod{}}
								}
								mod[n].whole = true
								ghost = true
							}
						}
						if ghost {
							continue
						}
					}
					name := callee.String()
					if isPutUint(name) {
						sliceWrite(v.Call.Args[1], types.Typ[types.Uint8], depth)
						continue
					}
					if pureStd(name) {
						continue
					}
					if c, ok := e.contracts[name]; ok && (c.Mode == e.sc.arith || c.Mode == "both") {
						if c.Pure {
							continue
						}
						if !c.HasAssigns {
							all = dbgAll(3)
							continue
						}
						for _, a := range c.Assigns {
							switch {
							case a == "*":
								all = dbgAll(4)
							case strings.HasPrefix(a, "H_") || strings.HasPrefix(a, "HA_"):
								ca, ok := e.canonHeap(a)
								if !ok {
									panic("assigns: unknown heap " + a)
								}
								if mod[ca] == nil {
									mod[ca] = &modInfo{cells: map[string]*cellMod{}}
								}
								mod[ca].whole = true
							default:
								pn, fld := a, ""
								if strings.HasPrefix(a, "*") {
									pn = a[1:]
								} else if i := strings.Index(a, "."); i > 0 {
									pn, fld = a[:i], a[i+1:]
								}
								found := false
								for pi, p := range callee.Params {
									if p.Name() != pn {
										continue
									}
									found = true
									arg := v.Call.Args[pi]
									fi := -1
									if fld != "" {
										if pt, ok := arg.Type().Underlying().(*types.Pointer); ok {
											if stT, ok := pt.Elem().Underlying().(*types.Struct); ok {
												for k := 0; k < stT.NumFields(); k++ {
													if stT.Field(k).Name() == fld {
														fi = k
													}
												}
											}
										}
									}
									cellField(arg, fi, depth)
								}
								if !found {
									all = dbgAll(5)
								}
							}
						}
						continue
					}
					if f.wouldInline(callee) && depth < 3 {
						for pi, p := range callee.Params {
							if _, isFn := p.Type().Underlying().(*types.Signature); isFn && pi < len(v.Call.Args) {
								if cf := closureOf(v.Call.Args[pi]); cf != nil {
									penv[p] = cf
								}
							}
						}
						scan(callee, nil, depth+1)
						continue
					}
					all = dbgAll(6)
				case *ssa.Go, *ssa.Defer, *ssa.Send, *ssa.Select:
					all = dbgAll(7)
				}
			}
		}
	}
	scan(f.fn, body, 0)
	if os.Getenv("GOVC_DEBUG") != "" {
		for n, mi := range mod {
			fmt.Fprintf(os.Stderr, "loopmod %s header b%d: %s whole=%v cells=%d all=%v\n", f.name, h.Index, n, mi.whole, len(mi.cells), all)
		}
	}
	return mod, all, written
}

// havocLoopHeap replaces the parts of heap n that the loop may write by fresh
// unknowns and keeps the rest.
func (f *frame) havocLoopHeap(st *State, n string, mi *modInfo) {
	e := f.e
	if mi.whole {
		st.heaps[n] = e.declare(n+"@loop", e.hsort[n])
		return
	}
	h := e.heapByName(st, n)
	for _, cell := range sortedKeys(mi.cells) {
		cm := mi.cells[cell]
		if cm.rawSort != "" {
			nv := e.declare("loopmap", cm.rawSort)
			h = fmt.Sprintf("(store %s %s %s)", h, cell, nv)
			continue
		}
		if cm.backing {
			nv := e.declare("looparr", fmt.Sprintf("(Array %s %s)", e.idxSort(), e.sc.sortOf(cm.typ)))
			h = fmt.Sprintf("(store %s %s %s)", h, cell, nv)
			continue
		}
		stT, isStruct := cm.typ.Underlying().(*types.Struct)
		if cm.whole || !isStruct {
			nv := e.declare("loopcell", e.sc.sortOf(cm.typ))
			h = fmt.Sprintf("(store %s %s %s)", h, cell, nv)
			continue
		}
		sn := e.sc.sortOf(cm.typ)
		var parts []string
		for i := 0; i < stT.NumFields(); i++ {
			if cm.fields[i] {
				nv := Val{term: e.declare("loopfld_"+stT.Field(i).Name(), e.sc.sortOf(stT.Field(i).Type())), typ: stT.Field(i).Type()}
				e.assumeRangeDeep("true", nv, 1)
				parts = append(parts, nv.term)
			} else {
				parts = append(parts, fmt.Sprintf("(%s_f%d (select %s %s))", sn, i, h, cell))
			}
		}
		h = fmt.Sprintf("(store %s %s (mk_%s %s))", h, cell, sn, strings.Join(parts, " "))
	}
	st.heaps[n] = e.define(n, e.hsort[n], h)
}

type deferRec struct {
	ins *ssa.Defer
	blk *ssa.BasicBlock
}

type hdrInfo struct {
	spec   LoopSpec
	varAt  string // decreases measure at header
	ord    int
	phiEnv map[string]Val
	st     *State // heap at the loop header (after havoc)
	blk    *ssa.BasicBlock
}

func (f *frame) loopHdr(b *ssa.BasicBlock, spec LoopSpec, st *State, env map[string]Val) {
	if f.hdrs == nil {
		f.hdrs = map[int]*hdrInfo{}
	}
	hi := &hdrInfo{spec: spec, phiEnv: env, st: st.clone(), blk: b}
	if spec.Decreases != "" {
		hi.varAt = f.evalSpecTerm(spec.Decreases, st, env).term
	}
	f.hdrs[b.Index] = hi
}

func (f *frame) setTuple(v ssa.Value, vs []Val) {
	if f.tuples == nil {
		f.tuples = map[ssa.Value][]Val{}
	}
	f.tuples[v] = vs
}

func (f *frame) nopanic(what, member, reach, prop string) {
	if !f.safety {
		return
	}
	f.e.oblige("nopanic", f.rootName()+"/nopanic", what+"#"+member, reach, prop)
}

// curState is the pre-state when no block is being executed (function entry);
// witnesses of known findings only mention parameters and call-site registers.
func (f *frame) curState() *State {
	if f.curSt != nil {
		return f.curSt
	}
	return f.pre
}

func (f *frame) rootName() string {
	r := f
	for r.parent != nil {
		r = r.parent
	}
	return r.name
}

func (f *frame) runBlock(b *ssa.BasicBlock, st *State, be map[[2]int]bool, loopOrd map[int]int) {
	e := f.e
	f.cur = b
	f.curSt = st
	if f.parent == nil {
		e.curFrame = f
	}
	reach := f.reach[b]
	for _, ins := range b.Instrs {
		switch v := ins.(type) {
		case *ssa.Phi:
			if _, done := f.vals[v]; done {
				continue // loop header phi already havocked
			}
			var term string
			var addr *Addr
			var clo *closureVal
			n := 0
			mixed := false
			for i, p := range b.Preds {
				if _, ok := f.reach[p]; !ok {
					continue
				}
				x := f.val(v.Edges[i])
				if n == 0 {
					addr, clo = x.addr, x.clo
				} else if x.addr != addr || x.clo != clo {
					mixed = true
				}
				n++
				if term == "" {
					term = x.term
				} else {
					term = fmt.Sprintf("(ite (and %s %s) %s %s)", f.reach[p], f.edge[[2]int{p.Index, b.Index}], x.term, term)
				}
			}
			if mixed {
				if strings.Contains(term, interiorPtr) {
					panic("phi of interior pointers")
				}
				addr, clo = nil, nil
			}
			f.vals[v] = Val{term: e.define(v.Name(), e.sc.sortOf(v.Type()), term), typ: v.Type(), addr: addr, clo: clo}
			if v.Comment != "" {
				f.defs = append(f.defs, nameDef{v.Comment, b, f.vals[v]})
			}
		case *ssa.BinOp:
			x, y := f.val(v.X), f.val(v.Y)
			if isString(x.typ) {
				f.vals[v] = f.stringOp(v, x, y, st, reach)
				continue
			}
			if (v.Op == token.QUO || v.Op == token.REM) && isInt(x.typ) {
				f.nopanic("div", "", reach, fmt.Sprintf("(not (= %s %s))", y.term, e.sc.intLit(0, y.typ)))
			}
			if (v.Op == token.SHL || v.Op == token.SHR) && isInt(y.typ) {
				if _, sg := e.width(y.typ); sg {
					if _, isC := v.Y.(*ssa.Const); !isC {
						f.nopanic("shift", "", reach, e.binop(token.GEQ, y.term, e.sc.intLit(0, y.typ), y.typ, y.typ))
					}
				}
			}
			t := e.binop(v.Op, x.term, y.term, x.typ, y.typ)
			nv := Val{term: e.define(v.Name(), e.sc.sortOf(v.Type()), t), typ: v.Type()}
			f.vals[v] = nv
			if e.sc.arith == "int" && isInt(x.typ) && (v.Op == token.ADD || v.Op == token.SUB || v.Op == token.MUL) {
				if w, sg := e.width(x.typ); w == 64 && sg {
					o := e.oblige("overflow", f.rootName()+"/overflow", "", reach,
						fmt.Sprintf("(and (<= (- 9223372036854775808) %s) (< %s 9223372036854775808))", nv.term, nv.term))
					_ = o
				}
			}
		case *ssa.UnOp:
			x := f.val(v.X)
			switch v.Op {
			case token.MUL: // load
				a := f.asAddr(x)
				if len(a.path) == 0 && x.addr == nil {
					f.nopanic("nil", "", reach, fmt.Sprintf("(not (= %s 0))", x.term))
				}
				t := e.load(st, a)
				nv := Val{term: e.define(v.Name(), e.sc.sortOf(v.Type()), t), typ: v.Type()}
				if len(a.path) == 0 && e.cellClo != nil {
					nv.clo = e.cellClo[a.cell]
				}
				e.assumeRangeDeep("true", nv, 0)
				e.assumePre(a, v.Type())
				f.vals[v] = nv
			case token.NOT:
				f.vals[v] = Val{term: fmt.Sprintf("(not %s)", x.term), typ: v.Type()}
			case token.SUB:
				if _, _, isF := fpParams(x.typ); isF {
					f.vals[v] = Val{term: fmt.Sprintf("(fp.neg %s)", x.term), typ: v.Type()}
				} else if e.sc.arith == "int" {
					f.vals[v] = Val{term: e.define(v.Name(), "Int", e.convert(fmt.Sprintf("(- %s)", x.term), x.typ, x.typ)), typ: v.Type()}
				} else {
					f.vals[v] = Val{term: fmt.Sprintf("(bvneg %s)", x.term), typ: v.Type()}
				}
			case token.XOR:
				if e.sc.arith == "int" {
					w, sg := e.width(x.typ)
					if sg {
						f.vals[v] = Val{term: fmt.Sprintf("(- (- %s) 1)", x.term), typ: v.Type()}
					} else {
						f.vals[v] = Val{term: fmt.Sprintf("(- %s %s)", pow2m1(w), x.term), typ: v.Type()}
					}
				} else {
					f.vals[v] = Val{term: fmt.Sprintf("(bvnot %s)", x.term), typ: v.Type()}
				}
			default:
				panic("unop " + v.Op.String())
			}
		case *ssa.Convert:
			x := f.val(v.X)
			f.vals[v] = f.doConvert(v, x, st, reach)
		case *ssa.ChangeType:
			x := f.val(v.X)
			from, to := e.sc.sortOf(v.X.Type()), e.sc.sortOf(v.Type())
			if st, ok := v.Type().Underlying().(*types.Struct); ok && from != to && st.NumFields() > 0 {
				// conversion between two named struct types with the same fields: each
				// is its own datatype, so the value is rebuilt field by field
				var fs []string
				for i := 0; i < st.NumFields(); i++ {
					fs = append(fs, fmt.Sprintf("(%s_f%d %s)", from, i, x.term))
				}
				f.vals[v] = Val{term: e.define(v.Name(), to, fmt.Sprintf("(mk_%s %s)", to, strings.Join(fs, " "))), typ: v.Type()}
				continue
			}
			f.vals[v] = Val{term: x.term, typ: v.Type(), addr: x.addr, clo: x.clo, lit: x.lit}
		case *ssa.FieldAddr:
			x := f.val(v.X)
			a := f.asAddr(x)
			if len(a.path) == 0 && x.addr == nil {
				f.nopanic("nil", "", reach, fmt.Sprintf("(not (= %s 0))", x.term))
			}
			stT := v.X.Type().Underlying().(*types.Pointer).Elem().Underlying().(*types.Struct)
			na := &Addr{cell: a.cell, cellT: a.cellT, backing: a.backing, path: append(append([]step{}, a.path...), step{field: v.Field, typ: stT.Field(v.Field).Type()})}
			f.vals[v] = Val{term: interiorPtr, typ: v.Type(), addr: na}
		case *ssa.Field:
			x := f.val(v.X)
			sn := e.sc.sortOf(x.typ)
			f.vals[v] = Val{term: fmt.Sprintf("(%s_f%d %s)", sn, v.Field, x.term), typ: v.Type()}
			e.assumeRangeDeep("true", f.vals[v], 1)
		case *ssa.IndexAddr:
			x := f.val(v.X)
			idx := f.val(v.Index)
			it := e.toIdx(idx)
			switch xt := v.X.Type().Underlying().(type) {
			case *types.Slice:
				f.nopanic("index", "", reach, e.idxLt(it, fmt.Sprintf("(s_len %s)", x.term)))
				na := &Addr{cell: fmt.Sprintf("(s_base %s)", x.term), cellT: xt.Elem(), backing: true,
					path: []step{{isIndex: true, index: e.idxAdd(fmt.Sprintf("(s_off %s)", x.term), it), typ: xt.Elem()}}}
				f.vals[v] = Val{term: interiorPtr, typ: v.Type(), addr: na}
			case *types.Pointer:
				at := xt.Elem().Underlying().(*types.Array)
				f.nopanic("index", "", reach, e.idxLt(it, e.idxLit(at.Len())))
				a := f.asAddr(x)
				na := &Addr{cell: a.cell, cellT: a.cellT, backing: a.backing, path: append(append([]step{}, a.path...), step{isIndex: true, index: it, typ: at.Elem()})}
				f.vals[v] = Val{term: interiorPtr, typ: v.Type(), addr: na}
			default:
				panic("IndexAddr on " + v.X.Type().String())
			}
		case *ssa.Index:
			x := f.val(v.X)
			idx := f.val(v.Index)
			it := e.toIdx(idx)
			switch xt := v.X.Type().Underlying().(type) {
			case *types.Array:
				f.nopanic("index", "", reach, e.idxLt(it, e.idxLit(xt.Len())))
				f.vals[v] = Val{term: e.define(v.Name(), e.sc.sortOf(v.Type()), fmt.Sprintf("(select %s %s)", x.term, it)), typ: v.Type()}
			case *types.Basic:
				if !isString(x.typ) {
					panic("Index on " + v.X.Type().String())
				}
				f.nopanic("index", "", reach, e.idxLt(it, fmt.Sprintf("(s_len %s)", x.term)))
				f.vals[v] = Val{term: e.define(v.Name(), e.sc.sortOf(v.Type()), e.strAt(x.term, it)), typ: v.Type()}
			default:
				panic("Index on " + v.X.Type().String())
			}
		case *ssa.Alloc:
			elem := v.Type().(*types.Pointer).Elem()
			if at, ok := elem.Underlying().(*types.Array); ok {
				loc := e.alloc(st, at.Elem(), true, fmt.Sprintf("((as const (Array %s %s)) %s)", e.idxSort(), e.sc.sortOf(at.Elem()), e.sc.zero(at.Elem())))
				f.vals[v] = Val{term: loc, typ: v.Type()}
				if !v.Heap {
					hn, _ := e.heapName(at.Elem(), true)
					f.locals = append(f.locals, localCell{hn, loc, v})
				}
			} else {
				loc := e.alloc(st, elem, false, e.sc.zero(elem))
				f.vals[v] = Val{term: loc, typ: v.Type()}
				if os.Getenv("GOVC_DEBUG") != "" && v.Heap {
					fmt.Fprintf(os.Stderr, "alloc %s (%s) heap: deferOnlyCapture=%v\n", v.Name(), v.Comment, deferOnlyCapture(v))
				}
				if !v.Heap || deferOnlyCapture(v) {
					hn, _ := e.heapName(elem, false)
					f.locals = append(f.locals, localCell{hn, loc, v})
				}
			}
			// a named local that lives in a cell: the name denotes the cell's content
			if v.Comment != "" && v.Comment != "complit" && v.Comment != "varargs" {
				f.defs = append(f.defs, nameDef{"&" + v.Comment, b, f.vals[v]})
			}
		case *ssa.Store:
			a := f.asAddr(f.val(v.Addr))
			sv := f.val(v.Val)
			if sv.clo != nil && len(a.path) == 0 {
				if e.cellClo == nil {
					e.cellClo = map[string]*closureVal{}
				}
				e.cellClo[a.cell] = sv.clo
			}
			if pv := f.val(v.Addr); len(a.path) == 0 && pv.addr == nil {
				f.nopanic("nil", "", reach, fmt.Sprintf("(not (= %s 0))", pv.term))
			}
			if strings.Contains(sv.term, interiorPtr) {
				panic("an interior pointer is stored in memory")
			}
			e.store(st, a, sv.term)
		case *ssa.MakeClosure:
			var bs []Val
			for _, b := range v.Bindings {
				bs = append(bs, f.val(b))
			}
			f.vals[v] = Val{term: e.declare("closure", "Int"), typ: v.Type(), clo: &closureVal{fn: v.Fn.(*ssa.Function), bindings: bs}}
		case *ssa.Slice:
			f.doSlice(v, st, reach)
		case *ssa.Call:
			f.doCall(v, st, reach)
		case *ssa.Extract:
			tv := f.tuples[v.Tuple]
			f.vals[v] = tv[v.Index]
			e.assumeRangeDeep("true", f.vals[v], 0)
		case *ssa.MakeSlice:
			elem := v.Type().Underlying().(*types.Slice).Elem()
			ln := f.val(v.Len)
			cp := f.val(v.Cap)
			lnT := e.toIdx(ln)
			cpT := e.toIdx(cp)
			if e.sc.arith == "int" {
				f.nopanic("makeslice", "", reach, fmt.Sprintf("(and (<= 0 %s) (<= %s %s) (<= %s %d))", lnT, lnT, cpT, cpT, maxLen))
			} else {
				f.nopanic("makeslice", "", reach, fmt.Sprintf("(and (bvule %s %s) (bvule %s %s))", lnT, cpT, cpT, bvLit(maxLen, 64)))
			}
			loc := e.alloc(st, elem, true, fmt.Sprintf("((as const (Array %s %s)) %s)", e.idxSort(), e.sc.sortOf(elem), e.sc.zero(elem)))
			f.vals[v] = Val{term: e.define(v.Name(), "Slice", fmt.Sprintf("(mk_slice %s %s %s %s)", loc, e.idxLit(0), lnT, cpT)), typ: v.Type()}
		case *ssa.MakeMap:
			// maps are opaque handles; only their entry count is modelled (ghost heap G_maplen)
			h := e.nextLoc()
			f.vals[v] = Val{term: h, typ: v.Type()}
			e.setMapLen(st, h, e.idxLit(0))
			e.mapClear(st, f.vals[v])
		case *ssa.If:
			c := f.val(v.Cond).term
			f.edge[[2]int{b.Index, b.Succs[0].Index}] = c
			f.edge[[2]int{b.Index, b.Succs[1].Index}] = fmt.Sprintf("(not %s)", c)
		case *ssa.Jump:
			f.edge[[2]int{b.Index, b.Succs[0].Index}] = "true"
		case *ssa.Return:
			var rs []Val
			for _, r := range v.Results {
				rs = append(rs, f.val(r))
			}
			if f.ctr != nil && f.parent == nil {
				if asserts := f.ctr.CallAsserts["return"]; len(asserts) > 0 {
					env := map[string]Val{}
					for i, rv := range rs {
						env[fmt.Sprintf("result%d", i)] = rv
					}
					if len(rs) == 1 {
						env["result"] = rs[0]
					}
					for _, as := range asserts {
						if t, bound := f.evalSpecAtSite(as.Src, st, env); bound {
							o := e.oblige("at", fmt.Sprintf("%s/at@return:%s", f.name, as.Label), "", reach, t)
							o.Slow = as.Slow
						}
					}
				}
			}
			f.rets = append(f.rets, retPoint{reach: reach, vals: rs, st: st.clone(), blk: b.Index})
		case *ssa.Panic:
			f.nopanic("panic", "", reach, "false")
			delete(f.reach, b) // successors (none) unreachable
			f.exitSt[b] = st
			return
		case *ssa.Lookup:
			x := f.val(v.X)
			if isString(x.typ) {
				idx := f.val(v.Index)
				it := e.toIdx(idx)
				f.nopanic("index", "", reach, e.idxLt(it, fmt.Sprintf("(s_len %s)", x.term)))
				f.vals[v] = Val{term: e.define(v.Name(), e.sc.sortOf(v.Type()), e.strAt(x.term, it)), typ: v.Type()}
				continue
			}
			if present, val, ok := e.mapGet(st, x, f.val(v.Index).term); ok {
				mt := x.typ.Underlying().(*types.Map)
				r0 := Val{term: e.define("mapval", e.sc.sortOf(mt.Elem()), val), typ: mt.Elem()}
				e.assumeRange(reach, r0)
				if v.CommaOk {
					f.setTuple(v, []Val{r0, {term: e.define("mapok", "Bool", present), typ: types.Typ[types.Bool]}})
				} else {
					f.vals[v] = r0
				}
				continue
			}
			// map index: opaque
			if v.CommaOk {
				tt := v.Type().(*types.Tuple)
				r0 := Val{term: e.declare("mapval", e.sc.sortOf(tt.At(0).Type())), typ: tt.At(0).Type()}
				e.assumeRange(reach, r0)
				f.setTuple(v, []Val{r0, {term: e.declare("mapok", "Bool"), typ: types.Typ[types.Bool]}})
			} else {
				f.vals[v] = Val{term: e.declare("mapval", e.sc.sortOf(v.Type())), typ: v.Type()}
				e.assumeRange(reach, f.vals[v])
			}
		case *ssa.Range:
			f.vals[v] = Val{term: "0", typ: v.Type()}
		case *ssa.Next:
			tt := v.Type().(*types.Tuple)
			var rs []Val
			for i := 0; i < tt.Len(); i++ {
				t := tt.At(i).Type()
				if _, bad := t.Underlying().(*types.Basic); bad && t.Underlying().(*types.Basic).Kind() == types.Invalid {
					rs = append(rs, Val{term: "false", typ: types.Typ[types.Bool]})
					continue
				}
				r := Val{term: e.declare("next", e.sc.sortOf(t)), typ: t}
				e.assumeRange(reach, r)
				rs = append(rs, r)
			}
			// ranging over a map whose content is modelled: the key handed out is
			// present and the value is the one stored under it (which keys are
			// visited, and in which order, stays unconstrained)
			if rg, ok := v.Iter.(*ssa.Range); ok && !v.IsString && tt.Len() == 3 {
				if _, isMap := rg.X.Type().Underlying().(*types.Map); isMap {
					kt := tt.At(1).Type()
					if b, bad := kt.Underlying().(*types.Basic); !(bad && b.Kind() == types.Invalid) {
						if present, val, ok := e.mapGet(st, f.val(rg.X), rs[1].term); ok {
							fact := present
							vt := tt.At(2).Type()
							if b, bad := vt.Underlying().(*types.Basic); !(bad && b.Kind() == types.Invalid) {
								fact = fmt.Sprintf("(and %s (= %s %s))", present, rs[2].term, val)
							}
							e.assume(reach, fmt.Sprintf("(=> %s %s)", rs[0].term, fact))
						}
					}
				}
			}
			f.setTuple(v, rs)
		case *ssa.ChangeInterface:
			x := f.val(v.X)
			from, to := e.sc.sortOf(v.X.Type()), e.sc.sortOf(v.Type())
			if from == to {
				f.vals[v] = Val{term: x.term, typ: v.Type()}
			} else {
				f.vals[v] = Val{term: e.declare("iface", to), typ: v.Type()}
			}
		case *ssa.MapUpdate:
			// content is opaque; afterwards the map has at least one entry
			m := f.val(v.Map)
			n := e.declare("maplen", e.idxSort())
			e.assume(reach, e.idxLe(e.idxLit(1), n))
			if e.sc.arith == "bv" {
				e.assume(reach, e.idxLe(n, bvLit(maxLen, 64)))
			}
			if present, _, ok := e.mapGet(st, m, f.val(v.Key).term); ok {
				// an existing key keeps the entry count, a new key adds one
				old := e.mapLen(st, m.term)
				e.assume(reach, fmt.Sprintf("(= %s (ite %s %s %s))", n, present, old, e.idxAdd(old, e.idxLit(1))))
				f.nopanic("mapassign-nil", "", reach, fmt.Sprintf("(not (= %s 0))", m.term))
				// execution continues only if the assignment did not panic
				e.assume(reach, fmt.Sprintf("(not (= %s 0))", m.term))
				e.mapStore(st, m, f.val(v.Key).term, f.val(v.Value).term, true)
			}
			e.setMapLen(st, m.term, n)
		case *ssa.TypeAssert:
			f.doTypeAssert(v, reach)
		case *ssa.MakeInterface:
			x := f.val(v.X)
			isort := e.sc.sortOf(v.Type())
			if isort == "Int" {
				f.vals[v] = Val{term: e.declare("iface", "Int"), typ: v.Type()}
			} else {
				box := e.sc.boxName(isort, v.X.Type())
				known := false
				for _, c := range e.sc.ifaceImpl[isort] {
					if types.Identical(c, v.X.Type()) {
						known = true
					}
				}
				if !known {
					panic("MakeInterface: " + v.X.Type().String() + " is not a known implementation of " + v.Type().String())
				}
				f.vals[v] = Val{term: fmt.Sprintf("(%s %s)", box, x.term), typ: v.Type()}
			}
		case *ssa.DebugRef:
			if id, ok := v.Expr.(*ast.Ident); ok && !v.IsAddr {
				if _, isFn := v.X.(*ssa.Function); !isFn {
					if _, isB := v.X.(*ssa.Builtin); !isB {
						f.defs = append(f.defs, nameDef{id.Name, b, f.val(v.X)})
					}
				}
			} else if ok && v.IsAddr {
				// a local that lives in a cell: remember the cell; the name denotes its current content
				f.defs = append(f.defs, nameDef{"&" + id.Name, b, f.val(v.X)})
			}
		case *ssa.Defer:
			// only `defer func() {...}()` registered on every path to the exits is
			// modelled (the save/restore idiom); it runs at RunDefers
			if _, ok := v.Call.Value.(*ssa.MakeClosure); (!ok || len(v.Call.Args) != 0) && (v.Call.StaticCallee() == nil || v.Call.IsInvoke()) {
				panic("defer of anything but a function literal or a statically known function is outside the subset")
			}
			f.deferred = append(f.deferred, deferRec{v, b})
		case *ssa.RunDefers:
			for i := len(f.deferred) - 1; i >= 0; i-- {
				d := f.deferred[i]
				if !d.blk.Dominates(b) {
					if !blockReaches(d.blk, b) {
						continue // not registered on any path to this exit
					}
					panic("a defer registered on some but not all paths to an exit is outside the subset")
				}
				// the deferred call is executed like a call instruction at this point
				f.doCall(&ssa.Call{Call: d.ins.Call}, st, reach)
			}
		default:
			panic(fmt.Sprintf("unsupported instruction %T: %s", ins, ins))
		}
	}
	f.exitSt[b] = st
	// back edges: invariant preservation
	for _, s := range b.Succs {
		if !be[[2]int{b.Index, s.Index}] {
			continue
		}
		hi := f.hdrs[s.Index]
		if hi == nil {
			continue
		}
		cond := fmt.Sprintf("(and %s %s)", reach, f.edge[[2]int{b.Index, s.Index}])
		env := map[string]Val{}
		pi := -1
		for i, p := range s.Preds {
			if p == b {
				pi = i
			}
		}
		for _, ins := range s.Instrs {
			phi, ok := ins.(*ssa.Phi)
			if !ok {
				break
			}
			env[phi.Comment] = f.val(phi.Edges[pi])
		}
		for _, inv := range hi.spec.Invariants {
			g := fmt.Sprintf("%s/loop%d/inv:%s", f.name, loopOrd[s.Index], inv.Label)
			o := e.oblige("inv", g, "step", cond, f.evalSpec(inv.Src, st, env, nil))
			o.Slow = inv.Slow
		}
		for _, ks := range hi.spec.Keeps {
			f.prevHdr = hi
			f.keepObligations(ks, st, env, cond, fmt.Sprintf("loop%d/step", loopOrd[s.Index]))
			f.prevHdr = nil
		}
		for _, sc := range hi.spec.Steps {
			g := fmt.Sprintf("%s/loop%d/step:%s", f.name, loopOrd[s.Index], sc.Label)
			f.prevHdr = hi
			o := e.oblige("step", g, "", cond, f.evalSpec(sc.Src, st, env, nil))
			f.prevHdr = nil
			o.Slow = sc.Slow
		}
		if hi.spec.Decreases != "" {
			now := f.evalSpecTerm(hi.spec.Decreases, st, env).term
			var lt string
			if e.sc.arith == "int" {
				lt = fmt.Sprintf("(and (>= %s 0) (< %s %s))", hi.varAt, now, hi.varAt)
			} else {
				lt = fmt.Sprintf("(bvult %s %s)", now, hi.varAt)
			}
			e.oblige("var", fmt.Sprintf("%s/loop%d/var", f.name, loopOrd[s.Index]), "", cond, lt)
		} else if f.ctr != nil && f.ctr.Terminates && f.parent == nil && !isRangeLoop(s) {
			e.oblige("var", fmt.Sprintf("%s/loop%d/var", f.name, loopOrd[s.Index]), "", cond, "false")
		}
	}
}

func pow2m1(w int) string {
	// 2^w - 1 as a decimal string
	p := pow2(w)
	b := []byte(p)
	for i := len(b) - 1; i >= 0; i-- {
		if b[i] > '0' {
			b[i]--
			break
		}
		b[i] = '9'
	}
	return strings.TrimLeft(string(b), "0")
}

func (f *frame) doTypeAssert(v *ssa.TypeAssert, reach string) {
	e := f.e
	x := f.val(v.X)
	isort := e.sc.sortOf(v.X.Type())
	if isort == "Int" {
		panic("type assertion on open-world interface " + v.X.Type().String())
	}
	if _, toIface := v.AssertedType.Underlying().(*types.Interface); toIface {
		panic("interface-to-interface assertion")
	}
	known := false
	for _, c := range e.sc.ifaceImpl[isort] {
		if types.Identical(c, v.AssertedType) {
			known = true
		}
	}
	okT, valT := "false", e.sc.zero(v.AssertedType)
	if known {
		box := e.sc.boxName(isort, v.AssertedType)
		okT = fmt.Sprintf("((_ is %s) %s)", box, x.term)
		valT = fmt.Sprintf("(ite %s (%s_v %s) %s)", okT, box, x.term, e.sc.zero(v.AssertedType))
	}
	if v.CommaOk {
		f.setTuple(v, []Val{{term: e.define(v.Name()+"_v", e.sc.sortOf(v.AssertedType), valT), typ: v.AssertedType}, {term: okT, typ: types.Typ[types.Bool]}})
	} else {
		f.nopanic("typeassert", "", reach, okT)
		f.vals[v] = Val{term: e.define(v.Name(), e.sc.sortOf(v.AssertedType), valT), typ: v.AssertedType}
	}
}

func isString(t types.Type) bool {
	b, ok := t.Underlying().(*types.Basic)
	return ok && b.Info()&types.IsString != 0
}

// toIdx converts an integer value to the index sort (Go int semantics).
func (e *Engine) toIdx(v Val) string {
	return e.convert(v.term, v.typ, types.Typ[types.Int])
}

func (f *frame) doConvert(v *ssa.Convert, x Val, st *State, reach string) Val {
	e := f.e
	from, to := x.typ, v.Type()
	if isString(from) {
		if sl, ok := to.Underlying().(*types.Slice); ok {
			if b, ok := sl.Elem().Underlying().(*types.Basic); ok && b.Kind() == types.Uint8 {
				// []byte(s): a fresh backing array with the string's bytes
				loc := e.alloc(st, sl.Elem(), true, fmt.Sprintf("(select strdata (s_base %s))", x.term))
				return Val{term: e.define(v.Name(), "Slice", fmt.Sprintf("(mk_slice %s (s_off %s) (s_len %s) (s_len %s))", loc, x.term, x.term, x.term)), typ: to}
			}
		}
		if isString(to) {
			return Val{term: x.term, typ: to, lit: x.lit}
		}
		r := Val{term: e.declare("conv", e.sc.sortOf(to)), typ: to}
		e.assumeRange(reach, r)
		return r
	}
	if isString(to) {
		if sl, ok := from.Underlying().(*types.Slice); ok {
			if b, ok := sl.Elem().Underlying().(*types.Basic); ok && b.Kind() == types.Uint8 {
				nb := e.declare("strbase", "Int")
				h := e.heapTerm(st, sl.Elem(), true)
				e.assume(reach, fmt.Sprintf("(= (select strdata %s) (select %s (s_base %s)))", nb, h, x.term))
				return Val{term: e.define(v.Name(), "Slice", fmt.Sprintf("(mk_slice %s (s_off %s) (s_len %s) (s_len %s))", nb, x.term, x.term, x.term)), typ: to}
			}
		}
		// string(rune) etc.: opaque
		r := Val{term: e.declare("conv", "Slice"), typ: to}
		e.assumeRange(reach, r)
		return r
	}
	if _, ok := from.Underlying().(*types.Pointer); ok {
		panic("unsafe pointer conversion")
	}
	if _, ok := to.Underlying().(*types.Pointer); ok {
		panic("unsafe pointer conversion")
	}
	return Val{term: e.define(v.Name(), e.sc.sortOf(to), e.convert(x.term, from, to)), typ: to}
}

func (f *frame) doSlice(v *ssa.Slice, st *State, reach string) {
	e := f.e
	x := f.val(v.X)
	var base, off, ln, cp string
	isStr := false
	switch xt := v.X.Type().Underlying().(type) {
	case *types.Slice:
		base, off, ln, cp = fmt.Sprintf("(s_base %s)", x.term), fmt.Sprintf("(s_off %s)", x.term), fmt.Sprintf("(s_len %s)", x.term), fmt.Sprintf("(s_cap %s)", x.term)
	case *types.Pointer:
		at := xt.Elem().Underlying().(*types.Array)
		a := f.asAddr(x)
		if len(a.path) != 0 {
			panic("slice of interior array unsupported")
		}
		if x.addr == nil {
			f.nopanic("nil", "", reach, fmt.Sprintf("(not (= %s 0))", x.term))
		}
		base, off, ln, cp = a.cell, e.idxLit(0), e.idxLit(at.Len()), e.idxLit(at.Len())
	case *types.Basic: // string
		isStr = true
		base, off, ln, cp = fmt.Sprintf("(s_base %s)", x.term), fmt.Sprintf("(s_off %s)", x.term), fmt.Sprintf("(s_len %s)", x.term), fmt.Sprintf("(s_len %s)", x.term)
	default:
		panic("slice of " + v.X.Type().String())
	}
	lo := e.idxLit(0)
	if v.Low != nil {
		lo = e.toIdx(f.val(v.Low))
	}
	hi := ln
	if v.High != nil {
		hi = e.toIdx(f.val(v.High))
	}
	mx := cp
	if v.Max != nil {
		mx = e.toIdx(f.val(v.Max))
		f.nopanic("slice", "", reach, fmt.Sprintf("(and %s %s %s %s)", e.idxLe(e.idxLit(0), lo), e.idxLe(lo, hi), e.idxLe(hi, mx), e.idxLe(mx, cp)))
	} else {
		f.nopanic("slice", "", reach, fmt.Sprintf("(and %s %s %s)", e.idxLe(e.idxLit(0), lo), e.idxLe(lo, hi), e.idxLe(hi, cp)))
	}
	ncap := e.idxSub(mx, lo)
	if isStr {
		ncap = e.idxSub(hi, lo)
	}
	t := fmt.Sprintf("(mk_slice %s %s %s %s)", base, e.idxAdd(off, lo), e.idxSub(hi, lo), ncap)
	f.vals[v] = Val{term: e.define(v.Name(), "Slice", t), typ: v.Type()}
}

// ---- strings ---------------------------------------------------------------

// strLit interns a string literal: one base location per distinct text, its
// bytes asserted in the immutable string store.
func (e *Engine) strLit(s string) string {
	if e.strLits == nil {
		e.strLits = map[string]string{}
	}
	if t, ok := e.strLits[s]; ok {
		return t
	}
	base := fmt.Sprintf("|str:%d|", len(e.strLits))
	e.declOnce(base, "Int")
	e.decls = append(e.decls, fmt.Sprintf("(assert (> %s 0))", base))
	if len(s) <= 80 {
		for i := 0; i < len(s); i++ {
			e.decls = append(e.decls, fmt.Sprintf("(assert (= (select (select strdata %s) %s) %s))", base, e.idxLit(int64(i)), e.byteLit(s[i])))
		}
	}
	t := fmt.Sprintf("(mk_slice %s %s %s %s)", base, e.idxLit(0), e.idxLit(int64(len(s))), e.idxLit(int64(len(s))))
	e.strLits[s] = t
	return t
}

func (e *Engine) byteLit(b byte) string {
	if e.sc.arith == "int" {
		return fmt.Sprint(int(b))
	}
	return bvLit(uint64(b), 8)
}

func (e *Engine) strAt(s, idx string) string {
	return fmt.Sprintf("(select (select strdata (s_base %s)) %s)", s, e.idxAdd(fmt.Sprintf("(s_off %s)", s), idx))
}

// strEq is string equality. Against a literal it is exact (length and every
// byte); between two unknown strings it is an uninterpreted relation that is
// only known to hold for identical headers.
func (e *Engine) strEq(a, b Val) string {
	if a.lit != nil && b.lit != nil {
		if *a.lit == *b.lit {
			return "true"
		}
		return "false"
	}
	if b.lit == nil && a.lit != nil {
		a, b = b, a
	}
	if b.lit != nil && len(*b.lit) <= 80 {
		s := *b.lit
		parts := []string{fmt.Sprintf("(= (s_len %s) %s)", a.term, e.idxLit(int64(len(s))))}
		for i := 0; i < len(s); i++ {
			parts = append(parts, fmt.Sprintf("(= %s %s)", e.strAt(a.term, e.idxLit(int64(i))), e.byteLit(s[i])))
		}
		if len(parts) == 1 {
			return parts[0]
		}
		return "(and " + strings.Join(parts, " ") + ")"
	}
	if !e.declared["str_eq"] {
		e.declared["str_eq"] = true
		e.decls = append(e.decls, "(declare-fun str_eq (Slice Slice) Bool)")
	}
	return fmt.Sprintf("(or (= %s %s) (and (= (s_len %s) (s_len %s)) (str_eq %s %s)))", a.term, b.term, a.term, b.term, a.term, b.term)
}

func (f *frame) stringOp(v *ssa.BinOp, x, y Val, st *State, reach string) Val {
	e := f.e
	switch v.Op {
	case token.EQL:
		return Val{term: e.define(v.Name(), "Bool", e.strEq(x, y)), typ: v.Type()}
	case token.NEQ:
		return Val{term: e.define(v.Name(), "Bool", "(not "+e.strEq(x, y)+")"), typ: v.Type()}
	case token.ADD:
		nb := e.declare("strcat", "Int")
		ln := e.idxAdd(fmt.Sprintf("(s_len %s)", x.term), fmt.Sprintf("(s_len %s)", y.term))
		r := Val{term: e.define(v.Name(), "Slice", fmt.Sprintf("(mk_slice %s %s %s %s)", nb, e.idxLit(0), ln, ln)), typ: v.Type()}
		return r
	case token.LSS, token.LEQ, token.GTR, token.GEQ:
		return Val{term: e.declare("strcmp", "Bool"), typ: v.Type()}
	}
	panic("string op " + v.Op.String())
}

// isRangeLoop: go/ssa lowers `for i := range x` (slice, array, string index,
// integer) to a header with a phi named rangeindex that is incremented once per
// iteration and compared with a length evaluated before the loop: such loops
// terminate by construction.
func isRangeLoop(h *ssa.BasicBlock) bool {
	for _, ins := range h.Instrs {
		if phi, ok := ins.(*ssa.Phi); ok {
			if phi.Comment == "rangeindex" {
				return true
			}
		} else {
			break
		}
	}
	return false
}

// ---- maps ------------------------------------------------------------------------

const mapLenHeap = "G_maplen"

func (e *Engine) mapLenTerm(st *State) string {
	e.hsort[mapLenHeap] = fmt.Sprintf("(Array Int %s)", e.idxSort())
	return e.heapByName(st, mapLenHeap)
}

func (e *Engine) setMapLen(st *State, m, n string) {
	h := e.mapLenTerm(st)
	st.heaps[mapLenHeap] = e.define(mapLenHeap, e.hsort[mapLenHeap], fmt.Sprintf("(store %s %s %s)", h, m, n))
}

func (e *Engine) mapLen(st *State, m string) string {
	return fmt.Sprintf("(select %s %s)", e.mapLenTerm(st), m)
}

// Map content is modelled for key types whose Go equality is the equality of
// their SMT representation (integers, booleans, pointers, structs of those):
// per map type a presence heap (Array Loc (Array K Bool)) and a value heap
// (Array Loc (Array K V)), versioned and havocked like every other heap. Maps
// with other key types (strings, floats, interfaces) stay opaque: a lookup
// yields an unconstrained value.
func plainKey(t types.Type, depth int) bool {
	switch u := t.Underlying().(type) {
	case *types.Basic:
		return u.Info()&(types.IsInteger|types.IsBoolean) != 0
	case *types.Pointer:
		return true
	case *types.Struct:
		if depth > 3 {
			return false
		}
		for i := 0; i < u.NumFields(); i++ {
			if !plainKey(u.Field(i).Type(), depth+1) {
				return false
			}
		}
		return true
	case *types.Array:
		return plainKey(u.Elem(), depth+1)
	}
	return false
}

func (e *Engine) mapHeaps(t types.Type) (hp, hv string, mt *types.Map, ok bool) {
	mt, isMap := t.Underlying().(*types.Map)
	if !isMap || !plainKey(mt.Key(), 0) || os.Getenv("GOVC_NOMAPS") != "" {
		return "", "", mt, false
	}
	kn, _ := e.heapName(mt.Key(), false)
	vn, _ := e.heapName(mt.Elem(), false)
	id := strings.TrimPrefix(kn, "H_") + "__" + strings.TrimPrefix(vn, "H_")
	hp, hv = "HMP_"+id, "HMV_"+id
	ks, vs := e.sc.sortOf(mt.Key()), e.sc.sortOf(mt.Elem())
	e.hsort[hp] = fmt.Sprintf("(Array Int (Array %s Bool))", ks)
	e.hsort[hv] = fmt.Sprintf("(Array Int (Array %s %s))", ks, vs)
	return hp, hv, mt, true
}

// mapGet returns (present, value) terms for m[k] in state st.
func (e *Engine) mapGet(st *State, m Val, k string) (present, val string, ok bool) {
	hp, hv, mt, ok := e.mapHeaps(m.typ)
	if !ok {
		return "", "", false
	}
	P, V := e.heapByName(st, hp), e.heapByName(st, hv)
	present = fmt.Sprintf("(and (not (= %s 0)) (select (select %s %s) %s))", m.term, P, m.term, k)
	val = fmt.Sprintf("(ite %s (select (select %s %s) %s) %s)", present, V, m.term, k, e.sc.zero(mt.Elem()))
	return present, val, true
}

func (e *Engine) mapStore(st *State, m Val, k, v string, present bool) {
	hp, hv, _, ok := e.mapHeaps(m.typ)
	if !ok {
		return
	}
	P := e.heapByName(st, hp)
	pb := "false"
	if present {
		pb = "true"
	}
	st.heaps[hp] = e.define(hp, e.hsort[hp], fmt.Sprintf("(store %s %s (store (select %s %s) %s %s))", P, m.term, P, m.term, k, pb))
	if present {
		V := e.heapByName(st, hv)
		st.heaps[hv] = e.define(hv, e.hsort[hv], fmt.Sprintf("(store %s %s (store (select %s %s) %s %s))", V, m.term, V, m.term, k, v))
	}
}

func (e *Engine) mapClear(st *State, m Val) {
	hp, _, mt, ok := e.mapHeaps(m.typ)
	if !ok {
		return
	}
	P := e.heapByName(st, hp)
	st.heaps[hp] = e.define(hp, e.hsort[hp], fmt.Sprintf("(store %s %s ((as const (Array %s Bool)) false))", P, m.term, e.sc.sortOf(mt.Key())))
}

// deferOnlyCapture reports whether a heap-allocated local is still private to
// its activation: apart from direct loads and stores its address is only bound
// into closures that are deferred (never stored, passed on or called by other
// code), and those closures only load and store it. Such a cell cannot be
// reached by any callee, so it keeps its content across havocked calls exactly
// like a stack local.
func deferOnlyCapture(a *ssa.Alloc) bool {
	if a.Referrers() == nil {
		return false
	}
	plain := func(refs *[]ssa.Instruction, self ssa.Value) bool {
		if refs == nil {
			return true
		}
		for _, r := range *refs {
			switch x := r.(type) {
			case *ssa.Store:
				if x.Val == self {
					return false
				}
			case *ssa.UnOp, *ssa.DebugRef:
			default:
				if _, ok := r.(*ssa.MakeClosure); ok && self == ssa.Value(a) {
					continue // checked below
				}
				if os.Getenv("GOVC_DEBUG") != "" {
					fmt.Fprintf(os.Stderr, "  referrer %T %v\n", r, r)
				}
				return false
			}
		}
		return true
	}
	if !plain(a.Referrers(), a) {
		return false
	}
	captured := false
	for _, r := range *a.Referrers() {
		mc, ok := r.(*ssa.MakeClosure)
		if !ok {
			continue
		}
		captured = true
		fn, _ := mc.Fn.(*ssa.Function)
		if fn == nil || mc.Referrers() == nil {
			return false
		}
		for _, mr := range *mc.Referrers() {
			if _, dbg := mr.(*ssa.DebugRef); dbg {
				continue
			}
			d, ok := mr.(*ssa.Defer)
			if !ok || d.Call.Value != ssa.Value(mc) {
				if os.Getenv("GOVC_DEBUG") != "" {
					fmt.Fprintf(os.Stderr, "  closure referrer %T %v\n", mr, mr)
				}
				return false
			}
		}
		for i, b := range mc.Bindings {
			if b == ssa.Value(a) {
				if i >= len(fn.FreeVars) || !plain(fn.FreeVars[i].Referrers(), fn.FreeVars[i]) {
					return false
				}
			}
		}
	}
	return captured
}

// usesRecover: some function literal inside fn calls recover(). Without that
// the recover block go/ssa adds to every function with a defer is dead code.
func usesRecover(fn *ssa.Function) bool {
	var scan func(g *ssa.Function) bool
	scan = func(g *ssa.Function) bool {
		for _, b := range g.Blocks {
			for _, ins := range b.Instrs {
				if c, ok := ins.(ssa.CallInstruction); ok {
					if bi, ok := c.Common().Value.(*ssa.Builtin); ok && bi.Name() == "recover" {
						return true
					}
				}
			}
		}
		for _, a := range g.AnonFuncs {
			if scan(a) {
				return true
			}
		}
		return false
	}
	return scan(fn)
}

func blockReaches(from, to *ssa.BasicBlock) bool {
	seen := map[*ssa.BasicBlock]bool{}
	work := []*ssa.BasicBlock{from}
	for len(work) > 0 {
		b := work[len(work)-1]
		work = work[:len(work)-1]
		for _, s := range b.Succs {
			if s == to {
				return true
			}
			if !seen[s] {
				seen[s] = true
				work = append(work, s)
			}
		}
	}
	return false
}

func dbgAll(site int) bool {
	if os.Getenv("GOVC_DEBUG") != "" {
		fmt.Fprintf(os.Stderr, "loopmod: everything havocked (site %d)\n", site)
	}
	return true
}
