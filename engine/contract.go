package main

import (
	"fmt"
	"go/ast"
	"regexp"
	"strconv"
	"strings"

	"golang.org/x/tools/go/packages"
)

// Contract files are comment-only Go files in /repo guarded by the build tag
// `verif` (zz_verif_contracts.go). Grammar, one item per `//@` line; a line whose
// text starts with `|` continues the previous line:
//
//	//@ pred NAME(p1, p2) := body
//	//@ ghostsum NAME(s, i) := term over s[i]   (prefix sum: NAME(s,0)=0, NAME(s,i+1)=NAME(s,i)+term; int mode)
//	//@ opaque NAME(p1, p2) := body     (an uninterpreted predicate of its arguments and the heaps
//	//                                   it reads, except in functions that say `reveal NAME`)
//	//@ func (*Writer).WriteBits
//	//@   mode bv|int
//	//@   tags C18 C10
//	//@   requires [label] expr
//	//@   ensures [label] expr          ("ensures! …": thorough tier only)
//	//@   assigns w.data, w.buf, HA_uint8
//	//@   pure
//	//@   nopanic | nooverflow | terminates | trusted
//	//@   loop K invariant [label] expr
//	//@   loop K step [label] expr        (prev(x) = value of x at the loop header)
//	//@   loop K decreases expr
//	//@   at CALLEE assert [label] expr
//	//@   ghost NAME (Int) Int
//	//@   axiom [label] expr
//	//@   lemma [label] by induction VAR from LO :: expr
//	//@   inline CALLEE | noinline CALLEE
//
// ConstCheck is a pure data obligation on a declared constant: its value in the
// source must equal the value the external specification gives.
type ConstCheck struct {
	Pkg, Name, Want string
	Tags            []string
	File            string
}

// TableCheck is a data obligation on a package-level map/slice literal of
// strings (keyword tables): required members, forbidden suffixes and patterns.
type TableCheck struct {
	Pkg, Var string
	Tags     []string
	Contains []string
	NoSuffix []string
	NoMatch  []string
	File     string
}

type ContractSet struct {
	Tables    []*TableCheck
	Consts    []ConstCheck
	Preds     map[string]predDef
	Contracts []*Contract
	ByKey     map[string]*Contract // pkgPath + "." + fn
	Errors    []string
}

var labelRe = regexp.MustCompile(`^\[([A-Za-z0-9_.:/+-]+)\]\s*`)

func takeLabel(s string, n int) (string, string) {
	if m := labelRe.FindStringSubmatch(s); m != nil {
		return m[1], s[len(m[0]):]
	}
	return strconv.Itoa(n), s
}

func parseContracts(pkgs []*packages.Package) *ContractSet {
	cs := &ContractSet{Preds: map[string]predDef{}, ByKey: map[string]*Contract{}}
	packages.Visit(pkgs, nil, func(p *packages.Package) {
		for i, f := range p.Syntax {
			name := p.CompiledGoFiles[i]
			if !strings.HasSuffix(name, "zz_verif_contracts.go") {
				continue
			}
			cs.parseFile(p.PkgPath, name, f)
		}
	})
	return cs
}

func (cs *ContractSet) parseFile(pkgPath, file string, f *ast.File) {
	var lines []string
	var lineNos []int
	for _, cg := range f.Comments {
		for _, c := range cg.List {
			t := c.Text
			if !strings.HasPrefix(t, "//@") {
				continue
			}
			t = strings.TrimSpace(t[3:])
			if t == "" {
				continue
			}
			if strings.HasPrefix(t, "|") && len(lines) > 0 {
				lines[len(lines)-1] += " " + strings.TrimSpace(t[1:])
				continue
			}
			lines = append(lines, t)
			lineNos = append(lineNos, 0)
		}
	}
	var cur *Contract
	var curTable *TableCheck
	var constTags []string
	errf := func(format string, a ...any) {
		cs.Errors = append(cs.Errors, file+": "+fmt.Sprintf(format, a...))
	}
	for _, ln := range lines {
		kw, rest, _ := strings.Cut(ln, " ")
		rest = strings.TrimSpace(rest)
		slow := false
		if strings.HasSuffix(kw, "!") {
			slow = true
			kw = kw[:len(kw)-1]
		}
		if kw == "table" {
			// table C16 C08 varName
			fs := strings.Fields(rest)
			if len(fs) < 2 {
				errf("bad table: %s", ln)
				continue
			}
			curTable = &TableCheck{Pkg: pkgPath, Var: fs[len(fs)-1], Tags: fs[:len(fs)-1], File: file}
			cs.Tables = append(cs.Tables, curTable)
			cur = nil
			continue
		}
		if curTable != nil && (kw == "contains" || kw == "none-suffix" || kw == "none-match") {
			switch kw {
			case "contains":
				curTable.Contains = append(curTable.Contains, strings.Fields(rest)...)
			case "none-suffix":
				curTable.NoSuffix = append(curTable.NoSuffix, strings.Fields(rest)...)
			case "none-match":
				curTable.NoMatch = append(curTable.NoMatch, strings.Fields(rest)...)
			}
			continue
		}
		if kw == "func" || kw == "consts" {
			curTable = nil
		}
		if kw == "ghostsum" {
			// ghostsum NAME(s, i) := body over s[i]
			head, body, ok := strings.Cut(rest, ":=")
			i := strings.Index(head, "(")
			if !ok || i < 0 {
				errf("bad ghostsum: %s", ln)
				continue
			}
			ps := strings.Split(strings.TrimSuffix(strings.TrimSpace(head[i+1:]), ")"), ",")
			if len(ps) != 2 {
				errf("ghostsum takes (slice, index): %s", ln)
				continue
			}
			name := strings.TrimSpace(head[:i])
			cs.Preds[name] = predDef{params: []string{strings.TrimSpace(ps[0]), strings.TrimSpace(ps[1])}, body: strings.TrimSpace(body), sum: true}
			continue
		}
		switch kw {
		case "consts":
			constTags = strings.Fields(rest)
			cur = nil
			continue
		case "const":
			fs := strings.Fields(rest)
			if len(fs) != 2 {
				errf("bad const check: %s", ln)
				continue
			}
			cs.Consts = append(cs.Consts, ConstCheck{Pkg: pkgPath, Name: fs[0], Want: fs[1], Tags: constTags, File: file})
			continue
		}
		opaque := false
		if kw == "opaque" {
			kw, opaque = "pred", true
		}
		switch kw {
		case "pred":
			// NAME(p1, p2) := body
			head, body, ok := strings.Cut(rest, ":=")
			if !ok {
				errf("bad pred: %s", ln)
				continue
			}
			head = strings.TrimSpace(head)
			i := strings.Index(head, "(")
			if i < 0 || !strings.HasSuffix(head, ")") {
				errf("bad pred head: %s", head)
				continue
			}
			var ps []string
			for _, p := range strings.Split(head[i+1:len(head)-1], ",") {
				if p = strings.TrimSpace(p); p != "" {
					ps = append(ps, p)
				}
			}
			name := head[:i]
			if _, dup := cs.Preds[name]; dup {
				errf("duplicate pred %s", name)
			}
			cs.Preds[name] = predDef{params: ps, body: strings.TrimSpace(body), opaque: opaque}
		case "func":
			cur = &Contract{Pkg: pkgPath, Fn: rest, Mode: "bv", CallAsserts: map[string][]Clause{}, Funs: map[string]string{}, Loops: map[int]LoopSpec{}, File: file}
			key := pkgPath + "." + rest
			if _, dup := cs.ByKey[key]; dup {
				errf("duplicate contract for %s", key)
			}
			cs.ByKey[key] = cur
			cs.Contracts = append(cs.Contracts, cur)
		default:
			if cur == nil {
				errf("clause outside func: %s", ln)
				continue
			}
			switch kw {
			case "mode":
				if rest != "bv" && rest != "int" {
					errf("bad mode %q", rest)
				}
				cur.Mode = rest
			case "tags":
				cur.Tags = strings.Fields(rest)
			case "requires":
				l, s := takeLabel(rest, len(cur.Requires))
				cur.Requires = append(cur.Requires, Clause{l, s, slow})
			case "ensures":
				l, s := takeLabel(rest, len(cur.Ensures))
				cur.Ensures = append(cur.Ensures, Clause{l, s, slow})
			case "axiom":
				l, s := takeLabel(rest, len(cur.Axioms))
				cur.Axioms = append(cur.Axioms, Clause{l, s, slow})
			case "assigns":
				cur.HasAssigns = true
				for _, a := range strings.Split(rest, ",") {
					if a = strings.TrimSpace(a); a != "" && a != "nothing" {
						cur.Assigns = append(cur.Assigns, a)
					}
				}
			case "pure":
				cur.Pure = true
			case "nopanic":
				cur.NoPanic = true
			case "nooverflow":
				cur.NoOverflow = true
			case "nomaprange":
				cur.NoMapRange = true
			case "terminates":
				cur.Terminates = true
			case "trusted":
				cur.Trusted = true
			case "functional":
				cur.Functional = true
			case "traverse":
				if strings.HasPrefix(rest, "stepmark ") || strings.HasPrefix(rest, "stepremap ") {
					// traverse stepmark|stepremap K param HandleType expr
					ps := strings.SplitN(rest, " ", 5)
					if len(ps) < 5 {
						errf("bad traverse %s clause: %s", ps[0], ln)
						continue
					}
					k, err := strconv.Atoi(ps[1])
					if err != nil {
						errf("bad traverse %s clause: %s", ps[0], ln)
						continue
					}
					cur.Traverses = append(cur.Traverses, Traverse{Mode: ps[0], Loop: k, Param: ps[2], Handle: ps[3], Expr: ps[4]})
					continue
				}
				parts := strings.SplitN(rest, " ", 4)
				if len(parts) < 4 || (parts[0] != "remap" && parts[0] != "mark") {
					errf("bad traverse clause: %s", ln)
					continue
				}
				cur.Traverses = append(cur.Traverses, Traverse{Mode: parts[0], Param: parts[1], Handle: parts[2], Expr: parts[3]})
			case "callback":
				fs := strings.Fields(rest)
				if len(fs) != 2 {
					errf("bad callback clause: %s", ln)
					continue
				}
				if cur.Callbacks == nil {
					cur.Callbacks = map[string]string{}
				}
				cur.Callbacks[fs[0]] = fs[1]
			case "reset":
				fs := strings.Fields(rest)
				if len(fs) < 1 {
					errf("bad reset clause: %s", ln)
					continue
				}
				r := Reset{Param: fs[0]}
				if len(fs) > 2 && fs[1] == "keep" {
					r.Keep = fs[2:]
				}
				cur.Resets = append(cur.Resets, r)
			case "purefn":
				cur.PureFns = append(cur.PureFns, strings.Fields(rest)...)
			case "order":
				o, err := parseOrder(rest)
				if err != nil {
					errf("%v: %s", err, ln)
					continue
				}
				cur.Orders = append(cur.Orders, o)
			case "ghostcall":
				// ghostcall CALLEE SET: a call of the named function records its first
				// (non-receiver) argument in ghost set SET instead of being executed
				fs := strings.Fields(rest)
				if len(fs) != 2 && len(fs) != 3 {
					errf("bad ghostcall clause: %s", ln)
					continue
				}
				if cur.GhostCalls == nil {
					cur.GhostCalls = map[string]string{}
					cur.GhostArg = map[string]string{}
				}
				cur.GhostCalls[fs[0]] = fs[1]
				if len(fs) == 3 {
					cur.GhostArg[fs[0]] = fs[2] // name of the callee parameter that is recorded
				}
			case "except":
				cur.Except = append(cur.Except, strings.Fields(rest)...)
			case "reveal":
				cur.Reveal = append(cur.Reveal, strings.Fields(rest)...)
			case "inline":
				cur.Inline = append(cur.Inline, strings.Fields(rest)...)
			case "noinline":
				cur.NoInline = append(cur.NoInline, strings.Fields(rest)...)
			case "ghost":
				n, sig, _ := strings.Cut(rest, " ")
				cur.Funs[n] = strings.TrimSpace(sig)
			case "loop":
				parts := strings.SplitN(rest, " ", 3)
				if len(parts) < 3 {
					errf("bad loop clause: %s", ln)
					continue
				}
				k, err := strconv.Atoi(parts[0])
				if err != nil {
					errf("bad loop ordinal: %s", ln)
					continue
				}
				ls := cur.Loops[k]
				switch parts[1] {
				case "invariant":
					l, s := takeLabel(parts[2], len(ls.Invariants))
					ls.Invariants = append(ls.Invariants, Clause{l, s, slow})
				case "step":
					if strings.HasPrefix(parts[2], "keep ") {
						fs := strings.Fields(parts[2])
						if len(fs) != 4 {
							errf("bad step keep clause: %s", ln)
							continue
						}
						ls.Keeps = append(ls.Keeps, KeepSpec{In: fs[1], Out: fs[2], Handle: fs[3]})
						break
					}
					l, s := takeLabel(parts[2], len(ls.Steps))
					ls.Steps = append(ls.Steps, Clause{l, s, slow})
				case "decreases":
					ls.Decreases = parts[2]
				default:
					errf("bad loop clause: %s", ln)
				}
				cur.Loops[k] = ls
			case "at":
				parts := strings.SplitN(rest, " ", 3)
				if len(parts) == 3 && parts[1] == "keep" {
					// at CALLEE keep IN OUT HANDLE [unless COND]
					body, unless, _ := strings.Cut(parts[2], " unless ")
					fs := strings.Fields(body)
					if len(fs) != 3 {
						errf("bad at keep clause: %s", ln)
						continue
					}
					if cur.CallKeeps == nil {
						cur.CallKeeps = map[string][]KeepSpec{}
					}
					cur.CallKeeps[parts[0]] = append(cur.CallKeeps[parts[0]], KeepSpec{In: fs[0], Out: fs[1], Handle: fs[2], Unless: strings.TrimSpace(unless)})
					continue
				}
				if len(parts) < 3 || parts[1] != "assert" {
					errf("bad at clause: %s", ln)
					continue
				}
				l, s := takeLabel(parts[2], len(cur.CallAsserts[parts[0]]))
				cur.CallAsserts[parts[0]] = append(cur.CallAsserts[parts[0]], Clause{l, s, slow})
			case "lemma":
				// [label] by induction VAR from LO :: expr   |   [label] :: expr
				l, s := takeLabel(rest, len(cur.Lemmas))
				lm := Lemma{Label: l}
				if strings.HasPrefix(s, "by induction ") {
					hdr, body, ok := strings.Cut(s[len("by induction "):], "::")
					if !ok {
						errf("bad lemma: %s", ln)
						continue
					}
					fs := strings.Fields(hdr)
					if len(fs) != 3 || fs[1] != "from" {
						errf("bad lemma header: %s", hdr)
						continue
					}
					lm.Var, lm.Lo, lm.Src = fs[0], fs[2], strings.TrimSpace(body)
				} else {
					lm.Src = strings.TrimSpace(strings.TrimPrefix(s, "::"))
				}
				cur.Lemmas = append(cur.Lemmas, lm)
			default:
				errf("unknown clause keyword %q in: %s", kw, ln)
			}
		}
	}
}

func (c *Contract) hasTag(t string) bool {
	for _, x := range c.Tags {
		if x == t {
			return true
		}
	}
	return false
}

// shortPkg is the last path element of the package ("bitcode").
func shortPkg(p string) string {
	if i := strings.LastIndex(p, "/"); i >= 0 {
		p = p[i+1:]
	}
	return p
}
