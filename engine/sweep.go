package main

import (
	"fmt"
	"go/types"
	"os"
	"path/filepath"
	"sort"
	"strings"
	"sync"
	"time"

	"golang.org/x/tools/go/ssa"
	"golang.org/x/tools/go/ssa/ssautil"
)

// runSweep is a development aid: it tries a zero-annotation safety contract
// ("no run-time panic, given non-nil pointer parameters") on every function of
// the named packages and prints, per function, how many obligations there are
// and which do not discharge. Functions that come out clean are candidates for
// the C10 perimeter (they are then written into the contract files, which is
// what the checks read; the sweep itself is never a check).
func runSweep(pkgPaths []string, timeout time.Duration, filter string) int {
	prog, err := loadProgram(pkgPaths, nil)
	if err != nil {
		fmt.Println("load:", err)
		return 2
	}
	want := map[string]bool{}
	for _, p := range pkgPaths {
		want[p] = true
	}
	var fns []*ssa.Function
	for fn := range ssautil.AllFunctions(prog) {
		if fn.Pkg == nil || !want[fn.Pkg.Pkg.Path()] || fn.Blocks == nil || strings.Contains(fn.Name(), "$") || fn.Synthetic != "" {
			continue
		}
		if strings.HasPrefix(fn.Name(), "init") {
			continue
		}
		if filter != "" && !strings.Contains(fn.String(), filter) {
			continue
		}
		if pos := prog.Fset.Position(fn.Pos()); strings.HasSuffix(pos.Filename, "_test.go") {
			continue
		}
		fns = append(fns, fn)
	}
	sort.Slice(fns, func(i, j int) bool { return fns[i].String() < fns[j].String() })
	outDir := filepath.Join(verifDir, "out", "sweep")
	os.RemoveAll(outDir)
	os.MkdirAll(outDir, 0o755)
	type row struct {
		name     string
		n, bad   int
		err      string
		fails    []string
		requires []string
		loops    int
	}
	rows := make([]row, len(fns))
	var wg sync.WaitGroup
	sem := make(chan struct{}, 12)
	for i, fn := range fns {
		wg.Add(1)
		sem <- struct{}{}
		go func(i int, fn *ssa.Function) {
			defer wg.Done()
			defer func() { <-sem }()
			name := shortFn(fn)
			ctr := &Contract{Pkg: fn.Pkg.Pkg.Path(), Fn: name, Mode: "bv", NoPanic: true, Pure: false, HasAssigns: true, Assigns: []string{"*"},
				CallAsserts: map[string][]Clause{}, Funs: map[string]string{}, Loops: map[int]LoopSpec{}}
			for _, p := range fn.Params {
				if _, ok := p.Type().Underlying().(*types.Pointer); ok {
					ctr.Requires = append(ctr.Requires, Clause{Label: "nonnil-" + p.Name(), Src: p.Name() + " != nil"})
				}
			}
			r := row{name: name, loops: len(backEdges(fn))}
			for _, c := range ctr.Requires {
				r.requires = append(r.requires, c.Src)
			}
			var e *Engine
			func() {
				defer func() {
					if x := recover(); x != nil {
						r.err = fmt.Sprint(x)
					}
				}()
				e = verifyFunc(prog, fn, ctr, map[string]*Contract{}, map[string]predDef{}, nil)
			}()
			if e != nil {
				for _, ob := range e.obls {
					if ob.Kind != "nopanic" {
						continue
					}
					r.n++
					res := solve(outDir, e, ob, timeout)
					if res.Verdict != "unsat" {
						r.bad++
						r.fails = append(r.fails, ob.Name[strings.LastIndex(ob.Name, "@")+1:]+":"+res.Verdict)
					}
				}
			}
			rows[i] = r
		}(i, fn)
	}
	wg.Wait()
	clean := 0
	for _, r := range rows {
		switch {
		case r.err != "":
			fmt.Printf("SKIP  %-60s %s\n", r.name, r.err)
		case r.n == 0:
			fmt.Printf("TRIV  %-60s\n", r.name)
		case r.bad == 0:
			clean++
			fmt.Printf("CLEAN %-60s %d obligations loops=%d requires=%v\n", r.name, r.n, r.loops, r.requires)
		default:
			fmt.Printf("FAIL  %-60s %d/%d %v\n", r.name, r.bad, r.n, r.fails)
		}
	}
	fmt.Printf("sweep: %d functions, %d clean with >=1 obligation\n", len(rows), clean)
	return 0
}
