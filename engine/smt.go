package main

import (
	"fmt"
	"go/types"
	"sort"
	"strings"
)

// ---- sorts ----------------------------------------------------------------

type sortCtx struct {
	structDecls map[string]string // sort name -> constructor list text
	order       []string
	arith       string // "bv" or "int"
	impls       func(*types.Interface) []types.Type
	ifaceImpl   map[string][]types.Type
}

func newSortCtx(arith string) *sortCtx {
	return &sortCtx{structDecls: map[string]string{}, arith: arith, ifaceImpl: map[string][]types.Type{}}
}

func mangle(s string) string {
	r := strings.NewReplacer("/", "_", ".", "_", "*", "P", "[", "L", "]", "R", " ", "", "(", "_", ")", "_", ",", "_", "{", "_", "}", "_", ";", "_")
	return r.Replace(s)
}

func intWidth(b *types.Basic) (int, bool) { // width, signed
	switch b.Kind() {
	case types.Int8:
		return 8, true
	case types.Int16:
		return 16, true
	case types.Int32, types.UntypedRune:
		return 32, true
	case types.Int64, types.Int, types.UntypedInt:
		return 64, true
	case types.Uint8:
		return 8, false
	case types.Uint16:
		return 16, false
	case types.Uint32:
		return 32, false
	case types.Uint64, types.Uint, types.Uintptr:
		return 64, false
	}
	return 0, false
}

func isInt(t types.Type) bool {
	b, ok := t.Underlying().(*types.Basic)
	return ok && b.Info()&types.IsInteger != 0
}

func (c *sortCtx) sortOf(t types.Type) string {
	switch u := t.Underlying().(type) {
	case *types.Basic:
		if u.Info()&types.IsBoolean != 0 {
			return "Bool"
		}
		if u.Info()&types.IsInteger != 0 {
			if c.arith == "int" {
				return "Int"
			}
			w, _ := intWidth(u)
			return fmt.Sprintf("(_ BitVec %d)", w)
		}
		if u.Kind() == types.Float32 {
			return "(_ FloatingPoint 8 24)"
		}
		if u.Kind() == types.Float64 {
			return "(_ FloatingPoint 11 53)"
		}
		if u.Info()&types.IsString != 0 {
			return "Slice"
		}
		if u.Kind() == types.UnsafePointer || u.Kind() == types.UntypedNil {
			return "Int"
		}
	case *types.Chan:
		return "Int"
	case *types.Pointer:
		return "Int"
	case *types.Slice:
		return "Slice"
	case *types.Array:
		if c.arith == "int" {
			return fmt.Sprintf("(Array Int %s)", c.sortOf(u.Elem()))
		}
		return fmt.Sprintf("(Array (_ BitVec 64) %s)", c.sortOf(u.Elem()))
	case *types.Struct:
		name := "S_" + mangle(t.String())
		if _, ok := c.structDecls[name]; !ok {
			c.structDecls[name] = "" // reserve (recursion guard)
			var fs []string
			for i := 0; i < u.NumFields(); i++ {
				fs = append(fs, fmt.Sprintf("(%s_f%d %s)", name, i, c.sortOf(u.Field(i).Type())))
			}
			if len(fs) == 0 {
				fs = append(fs, fmt.Sprintf("(%s_dummy Bool)", name))
			}
			c.structDecls[name] = fmt.Sprintf("((mk_%s %s))", name, strings.Join(fs, " "))
			c.order = append(c.order, name)
		}
		return name
	case *types.Map:
		return "Int" // opaque handle in prototype
	case *types.Interface:
		return c.ifaceSort(t, u)
	case *types.Signature:
		return "Int"
	case *types.Tuple:
		return "Int"
	}
	panic("sortOf: unsupported type " + t.String())
}

// ifaceSort builds a closed-world datatype for a module-local interface with an
// unexported marker method; other interfaces are opaque Ints.
func (c *sortCtx) ifaceSort(t types.Type, u *types.Interface) string {
	named, ok := types.Unalias(t).(*types.Named)
	if !ok || c.impls == nil {
		return "Int"
	}
	closed := false
	for i := 0; i < u.NumMethods(); i++ {
		if !u.Method(i).Exported() {
			closed = true
		}
	}
	if !closed {
		return "Int"
	}
	name := "I_" + mangle(named.String())
	if _, ok := c.structDecls[name]; ok {
		return name
	}
	c.structDecls[name] = ""
	ctors := []string{fmt.Sprintf("(%s_nil)", name)}
	var tags []types.Type
	for _, cand := range c.impls(u) {
		tags = append(tags, cand)
		ctors = append(ctors, fmt.Sprintf("(%s (%s_v %s))", c.boxName(name, cand), c.boxName(name, cand), c.sortOf(cand)))
	}
	c.ifaceImpl[name] = tags
	c.structDecls[name] = "(" + strings.Join(ctors, " ") + ")"
	c.order = append(c.order, name)
	return name
}

func (c *sortCtx) boxName(iface string, concrete types.Type) string {
	return iface + "_box_" + mangle(concrete.String())
}

func (c *sortCtx) prelude() string {
	var sb strings.Builder
	sb.WriteString("(set-logic ALL)\n")
	sb.WriteString("(declare-datatypes ((Slice 0)) (((mk_slice (s_base Int) (s_off Int) (s_len Int) (s_cap Int)))))\n")
	for _, n := range c.order {
		sb.WriteString(c.structDecls[n])
		sb.WriteString("\n")
	}
	return sb.String()
}

// zero value term of a type
func (c *sortCtx) zero(t types.Type) string {
	switch u := t.Underlying().(type) {
	case *types.Basic:
		if u.Info()&types.IsBoolean != 0 {
			return "false"
		}
		if u.Info()&types.IsInteger != 0 {
			return c.intLit(0, t)
		}
		if u.Info()&types.IsString != 0 {
			return c.zeroSlice()
		}
		if u.Kind() == types.Float32 {
			return "(_ +zero 8 24)"
		}
		if u.Kind() == types.Float64 {
			return "(_ +zero 11 53)"
		}
		if u.Kind() == types.UnsafePointer || u.Kind() == types.UntypedNil {
			return "0"
		}
	case *types.Chan, *types.Tuple:
		return "0"
	case *types.Interface:
		if s := c.sortOf(t); s != "Int" {
			return "(as " + s + "_nil " + s + ")"
		}
		return "0"
	case *types.Pointer, *types.Map, *types.Signature:
		return "0"
	case *types.Slice:
		return c.zeroSlice()
	case *types.Array:
		return fmt.Sprintf("((as const %s) %s)", c.sortOf(t), c.zero(u.Elem()))
	case *types.Struct:
		name := c.sortOf(t)
		var fs []string
		for i := 0; i < u.NumFields(); i++ {
			fs = append(fs, c.zero(u.Field(i).Type()))
		}
		if len(fs) == 0 {
			fs = append(fs, "false")
		}
		return fmt.Sprintf("(mk_%s %s)", name, strings.Join(fs, " "))
	}
	panic("zero: unsupported " + t.String())
}

func (c *sortCtx) zeroSlice() string {
	if c.arith == "int" {
		return "(mk_slice 0 0 0 0)"
	}
	z := bvLit(0, 64)
	return fmt.Sprintf("(mk_slice 0 %s %s %s)", z, z, z)
}

func (c *sortCtx) intLit(v int64, t types.Type) string {
	if c.arith == "int" {
		if v < 0 {
			return fmt.Sprintf("(- %d)", -v)
		}
		return fmt.Sprintf("%d", v)
	}
	w, _ := intWidth(t.Underlying().(*types.Basic))
	return bvLit(uint64(v), w)
}

func bvLit(v uint64, w int) string {
	if w < 64 {
		v &= (uint64(1) << uint(w)) - 1
	}
	return fmt.Sprintf("(_ bv%d %d)", v, w)
}

func sortedKeys[M ~map[string]V, V any](m M) []string {
	ks := make([]string, 0, len(m))
	for k := range m {
		ks = append(ks, k)
	}
	sort.Strings(ks)
	return ks
}
