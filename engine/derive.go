package main

import (
	"fmt"
	"go/types"
	"strings"

	"golang.org/x/tools/go/ssa"
)

// Type-derived obligations. A `traverse` directive does not spell out its
// post-conditions: they are generated from the Go type declarations (every
// concrete kind of the closed-world interface, every field path that holds the
// handle type), so a kind or a field added to the IR later is in the obligation
// automatically, and a switch that forgets one fails a named clause.
//
//	traverse remap <param> <HandleType> <map expression, $ = the old handle>
//	    result has the same kind; every handle field is mapped; optional
//	    (*Handle) fields stay nil / become non-nil fresh-or-not cells holding the
//	    mapped value, and the caller's cells are not written; every other
//	    field is unchanged.
//	traverse mark <param> <HandleType> <marked expression, $ = the handle>
//	    every handle reachable from <param> satisfies the expression afterwards.
//	except <Kind>[.<Field>] …       kinds/fields excluded (become `requires`
//	                                 for kinds; listed as assumptions)
//
// Reset is the directive `reset <recv> [keep a.b c ...]`: after the call every
// field of *recv (enumerated from the struct type, so a field added later is in
// the obligation automatically) is in its empty state - maps and slices have
// length 0, numbers are 0, booleans false, pointers/interfaces/funcs nil -
// except the fields listed after keep, which need an explicit ensures if they
// matter.
type Reset struct {
	Param string
	Keep  []string
}

type Traverse struct {
	Loop   int    // stepmark: the loop whose iteration handles one element of Param
	Mode   string // remap | mark | stepmark
	Param  string
	Handle string
	Expr   string
}

func typeShort(t types.Type) string {
	return types.TypeString(t, func(p *types.Package) string { return "" })
}

// hasHandle reports whether a value of type t can contain the handle type.
func (e *Engine) hasHandle(t types.Type, h types.Type, depth int) bool {
	if depth > 6 {
		return false
	}
	if sameHandle(t, h) {
		return true
	}
	switch u := t.Underlying().(type) {
	case *types.Pointer:
		return e.hasHandle(u.Elem(), h, depth+1)
	case *types.Slice:
		return e.hasHandle(u.Elem(), h, depth+1)
	case *types.Array:
		return e.hasHandle(u.Elem(), h, depth+1)
	case *types.Struct:
		for i := 0; i < u.NumFields(); i++ {
			if e.hasHandle(u.Field(i).Type(), h, depth+1) {
				return true
			}
		}
	case *types.Interface:
		s := e.sc.sortOf(t)
		if s == "Int" {
			return false
		}
		for _, c := range e.sc.ifaceImpl[s] {
			if e.hasHandle(c, h, depth+1) {
				return true
			}
		}
	}
	return false
}

// sameHandle: the handle type itself, or (for slice-typed handles such as
// ir.Block) any type with the identical underlying slice type.
func sameHandle(t, h types.Type) bool {
	if types.Identical(t, h) {
		return true
	}
	if _, ok := h.Underlying().(*types.Slice); ok {
		return types.Identical(t.Underlying(), h.Underlying())
	}
	return false
}

type travGen struct {
	e       *Engine
	tr      Traverse
	h       types.Type
	except  map[string]bool
	out     []Clause
	req     []Clause
	skipped []string
	ptrs    []ptrClause
	onPath  map[string]bool
	others  []types.Type // handle types of the contract's other traversals
}

// ptrClause remembers a clause about an optional-handle cell (a pointer field):
// a traversal that rewrites such cells in place rewrites each of them once only
// if the cells of one statement are distinct, so the step clauses of sibling
// cells are stated under that condition (separateCells).
type ptrClause struct {
	idx       int
	label, in string
}

func kindOfLabel(l string) string {
	ps := strings.Split(l, ".")
	if len(ps) >= 2 {
		return ps[0] + "." + ps[1]
	}
	return l
}

func (g *travGen) separateCells() {
	for _, p := range g.ptrs {
		var conds []string
		for _, q := range g.ptrs {
			if q.idx != p.idx && kindOfLabel(q.label) == kindOfLabel(p.label) {
				conds = append(conds, p.in+" != "+q.in)
			}
		}
		if len(conds) > 0 {
			g.out[p.idx].Src = "(" + strings.Join(conds, " && ") + ") ==> (" + g.out[p.idx].Src + ")"
			g.skipped = append(g.skipped, p.label+" (stated for distinct optional-handle cells within one statement)")
		}
	}
}

func (g *travGen) mapOf(old string) string {
	return "(" + strings.ReplaceAll(g.tr.Expr, "$", old) + ")"
}

// rd wraps a read of the traversed input: post-conditions of a marking
// traversal talk about the input as it was on entry (it may be reachable
// through a pointer and the function may call code that is summarised by a
// havoc).
func (g *travGen) rd(path string) string {
	if g.tr.Mode == "mark" {
		return "old(" + path + ")"
	}
	if g.tr.Mode == "stepremap" {
		return "prev(" + path + ")"
	}
	return path
}

// isRemap: the traversal rewrites handles (function result vs. parameter for
// "remap"; slice element at the back edge vs. at the loop header for "stepremap").
func (g *travGen) isRemap() bool { return g.tr.Mode == "remap" || g.tr.Mode == "stepremap" }

// was reads a sub-path of the input as it was before the rewrite.
func (g *travGen) was(path string) string {
	if g.tr.Mode == "stepremap" {
		return "prev(" + path + ")"
	}
	return "old(" + path + ")"
}

// walk emits the clauses for the value at `in` (input path) / `out` (result
// path) of type t, under the path condition cond. label names the path.
func (g *travGen) walk(t types.Type, in, out, cond, condIn, label string, depth int) {
	e := g.e
	add := func(lbl, body string) {
		src := body
		if cond != "" {
			src = cond + " ==> " + body
		}
		g.out = append(g.out, Clause{Label: lbl, Src: src})
	}
	if g.except[label] {
		g.skipped = append(g.skipped, label)
		return
	}
	// a field whose type is the handle of another traversal of the same contract
	// is that traversal's business (it is handed to the function that is
	// responsible for that type): nothing below it is required here
	if depth > 0 && !sameHandle(t, g.h) {
		for _, oh := range g.others {
			if sameHandle(t, oh) {
				return
			}
		}
	}
	if !e.hasHandle(t, g.h, 0) {
		if g.isRemap() || g.tr.Mode == "keep" {
			if _, isFunc := t.Underlying().(*types.Signature); isFunc {
				return
			}
			if _, isMap := t.Underlying().(*types.Map); isMap {
				return
			}
			add("keep:"+label, out+" == "+g.rd(in))
		}
		return
	}
	if sameHandle(t, g.h) && !(depth == 0 && isIface(t)) {
		if g.tr.Mode == "keep" {
			return
		}
		if g.isRemap() {
			add("trav:"+label, out+" == "+g.mapOf(g.rd(in)))
		} else if isIface(t) {
			// a node-typed handle (syntax trees): an absent child is not visited
			add("trav:"+label, "!isnil("+g.rd(in)+") ==> "+g.mapOf(g.rd(in)))
		} else if _, isPtr := t.Underlying().(*types.Pointer); isPtr {
			add("trav:"+label, g.rd(in)+" != nil ==> "+g.mapOf(g.rd(in)))
		} else {
			add("trav:"+label, g.mapOf(g.rd(in)))
		}
		return
	}
	switch u := t.Underlying().(type) {
	case *types.Pointer:
		if !types.Identical(u.Elem(), g.h) {
			if _, isStruct := u.Elem().Underlying().(*types.Struct); isStruct && !g.isRemap() {
				// a pointer to a struct: its fields are reached through the pointer
				g.walk(u.Elem(), in, out, joinCond(cond, g.rd(in)+" != nil"), joinCond(condIn, in+" != nil"), label, depth+1)
				return
			}
			g.skipped = append(g.skipped, label+" (pointer to "+typeShort(u.Elem())+")")
			return
		}
		g.req = append(g.req, Clause{Label: "valid:" + label, Src: implies(condIn, "valid("+in+")")})
		if g.isRemap() {
			add("trav:"+label+":nil", g.rd(in)+" == nil ==> "+out+" == nil")
			g.ptrs = append(g.ptrs, ptrClause{len(g.out), label, g.rd(in)})
			add("trav:"+label, g.rd(in)+" != nil ==> "+out+" != nil && *"+out+" == "+g.mapOf(g.was("*"+in)))
			if g.tr.Mode == "remap" {
				add("frame:"+label, in+" != nil ==> *"+in+" == old(*"+in+")")
			}
		} else {
			add("trav:"+label, g.rd(in)+" != nil ==> "+g.mapOf(g.rd("*"+in)))
		}
	case *types.Slice:
		if !types.Identical(u.Elem(), g.h) {
			if est, ok := u.Elem().Underlying().(*types.Struct); ok && !g.isRemap() {
				// every element's handle-typed fields (one level)
				for i := 0; i < est.NumFields(); i++ {
					ef := est.Field(i)
					if sameHandle(ef.Type(), g.h) {
						add("trav:"+label+"[*]."+ef.Name(), "forall j int :: 0 <= j && j < len("+g.rd(in)+") ==> "+g.mapOf(g.rd(in+"[j]."+ef.Name())))
					} else if e.hasHandle(ef.Type(), g.h, 0) {
						g.skipped = append(g.skipped, label+"[*]."+ef.Name()+" (nested)")
					}
				}
				return
			}
			g.skipped = append(g.skipped, label+" (slice of "+typeShort(u.Elem())+")")
			return
		}
		if g.tr.Mode == "stepremap" {
			// the element list may be rewritten in place: only its content is fixed
			add("trav:"+label+":len", "len("+out+") == len("+g.rd(in)+")")
			add("trav:"+label, "forall i int :: 0 <= i && i < len("+g.rd(in)+") ==> "+out+"[i] == "+g.mapOf(g.was(in+"[i]")))
		} else if g.tr.Mode == "remap" {
			add("trav:"+label+":len", "len("+out+") == len("+in+")")
			add("trav:"+label, "forall i int :: 0 <= i && i < len("+in+") ==> "+out+"[i] == "+g.mapOf("old("+in+"[i])"))
			add("frame:"+label, "forall i int :: 0 <= i && i < len("+in+") ==> "+in+"[i] == old("+in+"[i])")
		} else if isIface(u.Elem()) {
			add("trav:"+label, "forall i int :: 0 <= i && i < len("+g.rd(in)+") && !isnil("+g.rd(in+"[i]")+") ==> "+g.mapOf(g.rd(in+"[i]")))
		} else {
			add("trav:"+label, "forall i int :: 0 <= i && i < len("+g.rd(in)+") ==> "+g.mapOf(g.rd(in+"[i]")))
		}
	case *types.Struct:
		for i := 0; i < u.NumFields(); i++ {
			f := u.Field(i)
			fl := f.Name()
			if label != "" {
				fl = label + "." + fl
			}
			g.walk(f.Type(), in+"."+f.Name(), out+"."+f.Name(), cond, condIn, fl, depth+1)
		}
	case *types.Interface:
		s := e.sc.sortOf(t)
		if s == "Int" {
			g.skipped = append(g.skipped, label+" (open-world interface)")
			return
		}
		if g.onPath == nil {
			g.onPath = map[string]bool{}
		}
		if g.onPath[s] {
			// a recursive node type (syntax trees): the nested node is the callee's business
			g.skipped = append(g.skipped, label+" (nested node of the same interface)")
			return
		}
		g.onPath[s] = true
		defer func() { g.onPath[s] = false }()
		if g.isRemap() || g.tr.Mode == "keep" {
			add("trav:"+label+":nil", "isnil("+g.rd(in)+") ==> isnil("+out+")")
		}
		for _, c := range e.sc.ifaceImpl[s] {
			cn := typeShort(c)
			star := ""
			if pt, ok := c.(*types.Pointer); ok {
				cn = typeShort(pt.Elem())
				star = "*"
			}
			kl := cn
			if label != "" {
				kl = label + "." + cn
			}
			if g.except[kl] || g.except[cn] {
				g.req = append(g.req, Clause{Label: "except:" + kl, Src: implies(condIn, "!is("+in+", "+star+cn+")")})
				g.skipped = append(g.skipped, kl+" (excluded kind)")
				continue
			}
			if star != "" && (g.isRemap() || g.tr.Mode == "keep") {
				g.skipped = append(g.skipped, kl+" (pointer implementation)")
				continue
			}
			if star != "" {
				// a node type implemented by pointer (syntax trees): its fields are
				// read through the pointer
				c2 := joinCond(cond, "is("+g.rd(in)+", *"+cn+")")
				cIn2 := joinCond(condIn, "is("+in+", *"+cn+")")
				g.walk(c, in+".(*"+cn+")", out+".(*"+cn+")", c2, cIn2, kl, depth+1)
				continue
			}
			c2 := joinCond(cond, "is("+g.rd(in)+", "+cn+")")
			cIn2 := joinCond(condIn, "is("+in+", "+cn+")")
			if g.isRemap() || g.tr.Mode == "keep" {
				g.out = append(g.out, Clause{Label: "kind:" + kl, Src: c2 + " ==> is(" + out + ", " + cn + ")"})
				// everything below is stated under "the result has that kind" so that a
				// wrong kind fails kind: only
				c2 = joinCond(c2, "is("+out+", "+cn+")")
			}
			g.walk(c, in+".("+cn+")", out+".("+cn+")", c2, cIn2, kl, depth+1)
		}
	default:
		g.skipped = append(g.skipped, label+" ("+typeShort(t)+")")
	}
}

// isHandleScalar: plain index-like handles (ExpressionHandle, TypeHandle, ...)
// never contain other handles; only node types (interfaces, pointers, slices)
// delegate.
func isHandleScalar(t types.Type) bool {
	_, ok := t.Underlying().(*types.Basic)
	return ok
}

func isIface(t types.Type) bool {
	_, ok := t.Underlying().(*types.Interface)
	return ok
}

func implies(a, b string) string {
	if a == "" {
		return b
	}
	return a + " ==> " + b
}

func joinCond(a, b string) string {
	if a == "" {
		return b
	}
	return a + " && " + b
}

// derived expands the traverse directives of a contract into requires and
// ensures clauses (cached per engine run; the callee's view at call sites uses
// the same expansion).
func (e *Engine) derived(fn *ssa.Function, ctr *Contract) (req, ens []Clause) {
	if len(ctr.Traverses) == 0 && len(ctr.Resets) == 0 {
		return nil, nil
	}
	if e.derivedCache == nil {
		e.derivedCache = map[*Contract][2][]Clause{}
	}
	if c, ok := e.derivedCache[ctr]; ok {
		return c[0], c[1]
	}
	name := pkgLabel(ctr.Pkg) + "." + ctr.Fn
	for _, rs := range ctr.Resets {
		var pt types.Type
		for _, p := range fn.Params {
			if p.Name() == rs.Param {
				pt = p.Type()
			}
		}
		ptr, ok := pt.(*types.Pointer)
		if pt == nil || !ok {
			panic("reset: " + rs.Param + " is not a pointer parameter")
		}
		keep := map[string]bool{}
		for _, k := range rs.Keep {
			keep[k] = true
		}
		var walk func(t types.Type, path string, depth int)
		walk = func(t types.Type, path string, depth int) {
			rel := strings.TrimPrefix(path, rs.Param+".")
			if keep[rel] {
				e.noteAssumed(fmt.Sprintf("reset %s in %s: field %s is kept (not required to be cleared)", rs.Param, name, rel))
				return
			}
			lbl := "reset:" + rel
			switch u := t.Underlying().(type) {
			case *types.Map, *types.Slice:
				ens = append(ens, Clause{Label: lbl, Src: "len(" + path + ") == 0"})
			case *types.Basic:
				switch {
				case u.Info()&types.IsBoolean != 0:
					ens = append(ens, Clause{Label: lbl, Src: "!" + path})
				case u.Info()&types.IsInteger != 0:
					ens = append(ens, Clause{Label: lbl, Src: path + " == 0"})
				case u.Info()&types.IsString != 0:
					ens = append(ens, Clause{Label: lbl, Src: "len(" + path + ") == 0"})
				default:
					e.noteAssumed(fmt.Sprintf("reset %s in %s: field %s of type %s is not covered", rs.Param, name, rel, typeShort(t)))
				}
			case *types.Pointer, *types.Signature:
				ens = append(ens, Clause{Label: lbl, Src: path + " == nil"})
			case *types.Interface:
				if e.sc.sortOf(t) == "Int" {
					ens = append(ens, Clause{Label: lbl, Src: path + " == nil"})
				} else {
					ens = append(ens, Clause{Label: lbl, Src: "isnil(" + path + ")"})
				}
			case *types.Struct:
				if depth > 3 {
					return
				}
				for i := 0; i < u.NumFields(); i++ {
					walk(u.Field(i).Type(), path+"."+u.Field(i).Name(), depth+1)
				}
			default:
				e.noteAssumed(fmt.Sprintf("reset %s in %s: field %s of type %s is not covered", rs.Param, name, rel, typeShort(t)))
			}
		}
		st, ok := ptr.Elem().Underlying().(*types.Struct)
		if !ok {
			panic("reset: " + rs.Param + " does not point to a struct")
		}
		for i := 0; i < st.NumFields(); i++ {
			walk(st.Field(i).Type(), rs.Param+"."+st.Field(i).Name(), 0)
		}
	}
	for _, tr := range ctr.Traverses {
		var pt types.Type
		for _, p := range fn.Params {
			if p.Name() == tr.Param {
				pt = p.Type()
			}
		}
		if pt == nil {
			panic("traverse: no parameter " + tr.Param)
		}
		se := &specEnv{f: &frame{e: e, fn: fn}, pkg: fn.Pkg.Pkg}
		h := se.typeByName(tr.Handle)
		g := &travGen{e: e, tr: tr, h: h, except: map[string]bool{}}
		if tr.Mode == "mark" || tr.Mode == "stepmark" {
			for _, o := range ctr.Traverses {
				if o.Handle != tr.Handle && (o.Mode == "mark" || o.Mode == "stepmark") {
					if oh := se.typeByName(o.Handle); !isHandleScalar(oh) {
						g.others = append(g.others, oh)
					}
				}
			}
		}
		for _, x := range ctr.Except {
			g.except[x] = true
		}
		// make sure the interface datatype (and its implementation list) exists
		e.sc.sortOf(pt)
		out := "result"
		if tr.Mode == "mark" {
			out = tr.Param
		}
		if tr.Mode == "stepmark" || tr.Mode == "stepremap" {
			sl, ok := pt.Underlying().(*types.Slice)
			if !ok {
				panic("traverse " + tr.Mode + ": " + tr.Param + " is not a slice")
			}
			if tr.Mode == "stepmark" {
				el := "prev(" + tr.Param + "[rangeindex+1])"
				g.walk(sl.Elem(), el, el, "", "", "", 0)
			} else {
				// the element handled by this iteration, before (rd/was wrap the
				// path in prev()) and after (read at the back edge)
				g.walk(sl.Elem(), tr.Param+"[rangeindex+1]", tr.Param+"[prev(rangeindex+1)]", "", "", "", 0)
				g.separateCells()
				g.out = mergeKeeps(g.out)
			}
			if e.derivedSteps == nil {
				e.derivedSteps = map[*Contract]map[int][]Clause{}
			}
			if e.derivedSteps[ctr] == nil {
				e.derivedSteps[ctr] = map[int][]Clause{}
			}
			e.derivedSteps[ctr][tr.Loop] = append(e.derivedSteps[ctr][tr.Loop], g.out...)
			for _, s := range g.skipped {
				e.noteAssumed(fmt.Sprintf("traverse %s %s in %s: path not covered: %s", tr.Mode, tr.Handle, name, s))
			}
			continue
		}
		g.walk(pt, tr.Param, out, "", "", "", 0)
		req = append(req, g.req...)
		ens = append(ens, mergeKeeps(g.out)...)
		for _, s := range g.skipped {
			e.noteAssumed(fmt.Sprintf("traverse %s %s in %s: path not covered: %s", tr.Mode, tr.Handle, name, s))
		}
	}
	e.derivedCache[ctr] = [2][]Clause{req, ens}
	return req, ens
}

// keepClauses generates, for a value that is rebuilt field by field (out) from
// an original (in) of type t, the clauses "same kind, and every field that does
// not hold the handle type is unchanged". Fields holding the handle type (e.g.
// nested Blocks that a pass legitimately replaces) are not constrained.
func (e *Engine) keepClauses(t types.Type, in, out string, h types.Type) []Clause {
	g := &travGen{e: e, tr: Traverse{Mode: "keep", Expr: "true"}, h: h, except: map[string]bool{}}
	e.sc.sortOf(t)
	g.walk(t, in, out, "", "", "", 0)
	var cs []Clause
	for _, c := range g.out {
		if strings.HasPrefix(c.Label, "keep:") || strings.HasPrefix(c.Label, "kind:") || strings.HasSuffix(c.Label, ":nil") {
			cs = append(cs, c)
		}
	}
	return cs
}

// mergeKeeps conjoins the "field unchanged" clauses of one kind into a single
// clause (one solver query per kind instead of one per field); the other
// clauses are left as they are.
func mergeKeeps(cs []Clause) []Clause {
	var out []Clause
	idx := map[string]int{}
	for _, c := range cs {
		if !strings.HasPrefix(c.Label, "keep:") {
			out = append(out, c)
			continue
		}
		kind := c.Label[len("keep:"):]
		if i := strings.Index(kind, "."); i >= 0 {
			kind = kind[:i]
		}
		key := "keep:" + kind
		if i, ok := idx[key]; ok {
			out[i].Src = out[i].Src + " && (" + c.Src + ")"
			continue
		}
		idx[key] = len(out)
		out = append(out, Clause{Label: key, Src: "(" + c.Src + ")"})
	}
	return out
}
