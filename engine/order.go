package main

import (
	"fmt"
	"go/types"
	"strings"

	"golang.org/x/tools/go/ssa"
)

// OrderSpec is the directive
//
//	order sort.Slice#k [label] [key x :: expr]
//
// on a function that calls sort.Slice / sort.SliceStable: the comparator closure
// passed at the k-th such call is verified on its own (its captured variables
// are arbitrary), for all indices in range:
//
//	irreflexive   !less(i,i)
//	asymmetric    less(i,j) ==> !less(j,i)
//	transitive    less(i,j) && less(j,k) ==> less(i,k)
//	total         (only with key) !less(i,j) && !less(j,i) ==> key(s[i]) == key(s[j])
//
// Totality on the key is what makes the sorted order independent of the order
// in which the elements were collected (e.g. from a map).
type OrderSpec struct {
	Callee string
	K      int
	Label  string
	Var    string
	Key    string
}

func parseOrder(rest string) (OrderSpec, error) {
	var o OrderSpec
	fs := strings.Fields(rest)
	if len(fs) < 1 {
		return o, fmt.Errorf("bad order clause")
	}
	o.Callee, o.K = fs[0], 1
	if i := strings.LastIndex(fs[0], "#"); i > 0 {
		o.Callee = fs[0][:i]
		fmt.Sscan(fs[0][i+1:], &o.K)
	}
	rest = strings.TrimSpace(strings.TrimPrefix(rest, fs[0]))
	o.Label, rest = takeLabel(rest, o.K)
	if strings.HasPrefix(rest, "key ") {
		hdr, body, ok := strings.Cut(rest[4:], "::")
		if !ok {
			return o, fmt.Errorf("bad order key")
		}
		o.Var, o.Key = strings.TrimSpace(hdr), strings.TrimSpace(body)
	}
	return o, nil
}

// findSortCall returns the k-th call of callee (e.g. "sort.Slice") in fn, in
// block order, with the comparator closure and the SSA value being sorted.
func findSortCall(fn *ssa.Function, callee string, k int) (*ssa.MakeClosure, ssa.Value) {
	n := 0
	for _, b := range fn.Blocks {
		for _, ins := range b.Instrs {
			c, ok := ins.(*ssa.Call)
			if !ok {
				continue
			}
			sc := c.Call.StaticCallee()
			if sc == nil || sc.String() != callee {
				continue
			}
			n++
			if n != k {
				continue
			}
			mc, _ := c.Call.Args[1].(*ssa.MakeClosure)
			var sorted ssa.Value
			if mi, ok := c.Call.Args[0].(*ssa.MakeInterface); ok {
				sorted = mi.X
			}
			return mc, sorted
		}
	}
	return nil, nil
}

// verifyOrders generates the comparator obligations of a contract.
func verifyOrders(e *Engine, prog *ssa.Program, fn *ssa.Function, ctr *Contract, name string) {
	for _, o := range ctr.Orders {
		mc, sorted := findSortCall(fn, o.Callee, o.K)
		if mc == nil || sorted == nil {
			panic(fmt.Sprintf("order: call #%d of %s with a closure comparator not found", o.K, o.Callee))
		}
		cmp := mc.Fn.(*ssa.Function)
		if len(cmp.Params) != 2 {
			panic("order: comparator does not take two indices")
		}
		// which captured variable is the sorted slice?
		var cell ssa.Value
		if ld, ok := sorted.(*ssa.UnOp); ok {
			cell = ld.X
		}
		fvIndex := -1
		byValue := false
		for i, b := range mc.Bindings {
			if b == cell {
				fvIndex = i
			}
			if b == sorted {
				fvIndex, byValue = i, true
			}
		}
		if fvIndex < 0 {
			panic("order: cannot tell which captured variable is the sorted slice")
		}
		st0 := &State{heaps: map[string]string{}}
		e.rootPre = st0
		// captured variables: arbitrary pre-existing cells / values
		free := make([]Val, len(cmp.FreeVars))
		for i, fv := range cmp.FreeVars {
			t := e.declare("fv_"+fv.Name(), e.sc.sortOf(fv.Type()))
			free[i] = Val{term: t, typ: fv.Type()}
			if _, ok := fv.Type().Underlying().(*types.Pointer); ok {
				e.decls = append(e.decls, fmt.Sprintf("(assert (and (> %s 0) (< %s alloc0)))", t, t))
			}
			e.assumeRangeDeep("true", free[i], 0)
		}
		root := &frame{e: e, fn: cmp, vals: map[ssa.Value]Val{}, reach: map[*ssa.BasicBlock]string{}, exitSt: map[*ssa.BasicBlock]*State{},
			edge: map[[2]int]string{}, ctr: &Contract{Pkg: ctr.Pkg, Fn: ctr.Fn, Mode: ctr.Mode, CallAsserts: map[string][]Clause{}, Funs: map[string]string{}, Loops: map[int]LoopSpec{}}, name: name, params: map[string]Val{}, pre: st0}
		e.curFrame = root
		var sliceTerm string
		var sliceT types.Type
		if byValue {
			sliceTerm, sliceT = free[fvIndex].term, free[fvIndex].typ
		} else {
			a := root.asAddr(free[fvIndex])
			sliceTerm = e.load(st0, a)
			sliceT = free[fvIndex].typ.Underlying().(*types.Pointer).Elem()
			e.assume("true", e.wfSlice(sliceTerm))
		}
		sl, ok := sliceT.Underlying().(*types.Slice)
		if !ok {
			panic("order: the sorted value is not a slice")
		}
		idx := func(n string) Val {
			t := e.declare("ord_"+n, e.idxSort())
			e.assume("true", e.idxLt(t, fmt.Sprintf("(s_len %s)", sliceTerm)))
			return Val{term: t, typ: types.Typ[types.Int]}
		}
		i, j, k := idx("i"), idx("j"), idx("k")
		less := func(a, b Val) string {
			nf := &frame{e: e, fn: cmp, parent: nil, vals: map[ssa.Value]Val{}, reach: map[*ssa.BasicBlock]string{}, exitSt: map[*ssa.BasicBlock]*State{},
				edge: map[[2]int]string{}, name: name + ">cmp", pre: st0}
			nf.vals[cmp.Params[0]] = a
			nf.vals[cmp.Params[1]] = b
			for x, fv := range cmp.FreeVars {
				nf.vals[fv] = free[x]
			}
			nf.exec("true", st0.clone())
			if len(nf.rets) == 0 {
				panic("order: comparator never returns")
			}
			var term string
			for r := len(nf.rets) - 1; r >= 0; r-- {
				if term == "" {
					term = nf.rets[r].vals[0].term
				} else {
					term = fmt.Sprintf("(ite %s %s %s)", nf.rets[r].reach, nf.rets[r].vals[0].term, term)
				}
			}
			return e.define("less", "Bool", term)
		}
		lii, lij, lji, ljk, lik := less(i, i), less(i, j), less(j, i), less(j, k), less(i, k)
		g := fmt.Sprintf("%s/order:%s", name, o.Label)
		e.oblige("order", g, "irreflexive", "true", "(not "+lii+")")
		e.oblige("order", g, "asymmetric", "true", fmt.Sprintf("(=> %s (not %s))", lij, lji))
		e.oblige("order", g, "transitive", "true", fmt.Sprintf("(=> (and %s %s) %s)", lij, ljk, lik))
		if o.Key != "" {
			h := e.heapTerm(st0, sl.Elem(), true)
			elem := func(ix Val) Val {
				return Val{term: fmt.Sprintf("(select (select %s (s_base %s)) %s)", h, sliceTerm, e.idxAdd(fmt.Sprintf("(s_off %s)", sliceTerm), ix.term)), typ: sl.Elem()}
			}
			se := &specEnv{f: root, pkg: cmp.Pkg.Pkg, st: st0, pre: st0}
			se.names = map[string]Val{o.Var: elem(i)}
			ki := se.evalAny(o.Key)
			se.names = map[string]Val{o.Var: elem(j)}
			kj := se.evalAny(o.Key)
			eq := fmt.Sprintf("(= %s %s)", ki.term, kj.term)
			e.oblige("order", g, "total-on-key", "true", fmt.Sprintf("(=> (and (not %s) (not %s)) %s)", lij, lji, eq))
		}
	}
}
