package main

import (
	"bufio"
	"encoding/json"
	"fmt"
	"os"
	"path/filepath"
	"sort"
	"strings"
	"sync"
	"time"
)

// Mutant is one entry of /verif/selftest/<Cxx>.jsonl: a small textual edit of a
// file of /repo, applied in memory through packages.Config.Overlay (the tree is
// not touched), and the obligation that must stop discharging.
type Mutant struct {
	Name   string `json:"name"`
	File   string `json:"file"` // relative to /repo
	Old    string `json:"old"`
	New    string `json:"new"`
	Only   string `json:"only"`   // function filter (substring) to keep the run short
	Expect string `json:"expect"` // substring of a violated obligation; "" = benign edit, no violation allowed
}

func loadMutants(prop string) ([]Mutant, error) {
	f, err := os.Open(filepath.Join(verifDir, "selftest", prop+".jsonl"))
	if err != nil {
		if os.IsNotExist(err) {
			return nil, nil
		}
		return nil, err
	}
	defer f.Close()
	var out []Mutant
	sc := bufio.NewScanner(f)
	sc.Buffer(make([]byte, 1<<20), 1<<20)
	for sc.Scan() {
		ln := strings.TrimSpace(sc.Text())
		if ln == "" || strings.HasPrefix(ln, "#") {
			continue
		}
		var m Mutant
		if err := json.Unmarshal([]byte(ln), &m); err != nil {
			return nil, fmt.Errorf("%s: %v", prop, err)
		}
		out = append(out, m)
	}
	return out, nil
}

// runSelftest runs the must-fail corpus: every mutant must be reported by the
// named obligation, every benign edit must pass. A miss means the checker is
// broken: ENGINE-SELFTEST-FAILED.
func runSelftest(prop string, timeout time.Duration) int {
	props := []string{prop}
	if prop == "" {
		ms, _ := filepath.Glob(filepath.Join(verifDir, "selftest", "C*.jsonl"))
		props = nil
		for _, m := range ms {
			props = append(props, strings.TrimSuffix(filepath.Base(m), ".jsonl"))
		}
		sort.Strings(props)
	}
	bad := 0
	total := 0
	for _, p := range props {
		ms, err := loadMutants(p)
		if err != nil {
			fmt.Println("ENGINE-SELFTEST-FAILED", err)
			return 2
		}
		var wg sync.WaitGroup
		sem := make(chan struct{}, 4)
		var mu sync.Mutex
		for i, m := range ms {
			wg.Add(1)
			sem <- struct{}{}
			go func(i int, m Mutant) {
				defer wg.Done()
				defer func() { <-sem }()
				path := filepath.Join(repoDir, m.File)
				b, err := os.ReadFile(path)
				msg := ""
				if err != nil {
					msg = "cannot read " + path
				} else if !strings.Contains(string(b), m.Old) {
					msg = "mutation site not found (the code under contract changed; the corpus entry is stale)"
				}
				if msg != "" {
					mu.Lock()
					fmt.Printf("selftest %s/%s: SKIPPED %s\n", p, m.Name, msg)
					mu.Unlock()
					return
				}
				ov := map[string][]byte{path: []byte(strings.Replace(string(b), m.Old, m.New, 1))}
				res := runCheckFull(CheckOpts{Prop: p, Tier: "quick", Only: m.Only, Overlay: ov, Silent: true, Quiet: true, NoEvid: true,
					OutDir: filepath.Join(verifDir, "out", fmt.Sprintf("selftest-%s-%d", p, i)), Workers: 4, Timeout: 20 * time.Second})
				ok := false
				if m.Expect == "" {
					ok = res.Code == 0
				} else {
					for _, v := range res.Violations {
						if strings.Contains(v, m.Expect) {
							ok = true
						}
					}
				}
				mu.Lock()
				total++
				if ok {
					fmt.Printf("selftest %s/%s: ok (%d violations)\n", p, m.Name, len(res.Violations))
				} else {
					bad++
					fmt.Printf("selftest %s/%s: MISSED (code %d, expected %q, got %v)\n", p, m.Name, res.Code, m.Expect, res.Violations)
				}
				mu.Unlock()
				os.RemoveAll(filepath.Join(verifDir, "out", fmt.Sprintf("selftest-%s-%d", p, i)))
			}(i, m)
		}
		wg.Wait()
	}
	fmt.Printf("selftest: %d mutants, %d not handled as expected\n", total, bad)
	if bad > 0 {
		fmt.Println("ENGINE-SELFTEST-FAILED must-fail corpus")
		return 2
	}
	return 0
}
