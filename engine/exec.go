package main

import (
	"fmt"
	"go/constant"
	"go/token"
	"go/types"
	"strings"

	"golang.org/x/tools/go/ssa"
)

// Val is the symbolic value of an SSA value.
type Val struct {
	term string
	typ  types.Type
	addr *Addr // set for pointer-typed values that are tracked as (cell,path)
	clo  *closureVal
	lit  *string // string constants keep their text
	cb   string  // callback parameter modelled as "adds its argument to ghost set cb"
	uf   string  // function-typed parameter modelled as an uninterpreted pure function
}

type closureVal struct {
	fn       *ssa.Function
	bindings []Val
}

type step struct {
	field   int
	index   string
	isIndex bool
	typ     types.Type // type after taking the step
}

type Addr struct {
	cell    string     // SMT Int term
	cellT   types.Type // content type of the cell (for backing cells: element type)
	backing bool       // cell lives in HA_<elem>; content is (Array idx elem)
	path    []step
}

type Obligation struct {
	Name   string // unique member name, e.g. bitcode.(*Writer).WriteBits/post:pos@ret0
	Group  string // claim granularity, e.g. bitcode.(*Writer).WriteBits/post:pos
	Prefix int    // number of decl lines usable
	Reach  string // path condition
	Prop   string
	Kind   string
	Fn     string
	Slow   bool
	Known  bool // the part of a split obligation that a known finding expects to fail
}

// Clause is one labelled contract expression.
type Clause struct {
	Label string
	Src   string
	Slow  bool // thorough tier only
}

type Contract struct {
	Pkg, Fn     string
	Mode        string              // "bv" or "int"
	Tags        []string            // property ids
	CallAsserts map[string][]Clause // callee name suffix -> assertions at each call site (arg0.. bound)
	CallKeeps   map[string][]KeepSpec
	Funs        map[string]string // uninterpreted ghost functions: name -> "(Int) Int"
	Axioms      []Clause          // assumed over the pre-state (ghost definitions; lemmas are proved separately)
	Lemmas      []Lemma
	Requires    []Clause
	Ensures     []Clause
	Assigns     []string
	HasAssigns  bool
	Pure        bool // "assigns nothing" and checked
	NoPanic     bool
	NoOverflow  bool
	NoMapRange  bool // `nomaprange`: the body must not iterate over a map (order-sensitive construction)
	Terminates  bool
	Trusted     bool              // contract assumed, body not checked (listed in evidence)
	Functional  bool              // calls are modelled as an uninterpreted function of the argument values
	Loops       map[int]LoopSpec  // loop ordinal (by header block index order) -> spec
	Callbacks   map[string]string // parameter name -> ghost set name
	GhostCalls  map[string]string // callee -> ghost set name
	GhostArg    map[string]string // callee -> name of the recorded parameter (default: first non-receiver)
	Orders      []OrderSpec
	PureFns     []string // function-typed parameters assumed pure (uninterpreted functions)
	Reveal      []string
	Traverses   []Traverse
	Resets      []Reset
	Except      []string
	Inline      []string // callee name suffixes that must be inlined regardless of size
	NoInline    []string
	Line        int
	File        string
}

type Lemma struct {
	Label string
	Var   string // induction variable ("" = direct)
	Src   string
	Lo    string // induction base
}

// KeepSpec: the value Out is a field-by-field rebuild of In; everything that
// does not hold the Handle type must be carried over unchanged.
type KeepSpec struct {
	In, Out, Handle, Unless string
}

type LoopSpec struct {
	Keeps      []KeepSpec
	Invariants []Clause
	Steps      []Clause // transition invariants: relate prev(x) (header value) to x (next-iteration value)
	Decreases  string
}

type Engine struct {
	freshLo, freshHi string // allocation window of the callee whose post-conditions are being assumed
	sc               *sortCtx
	prog             *ssa.Program
	decls            []string
	declared         map[string]bool
	hsort            map[string]string // heap name -> sort (registry of every heap touched)
	obls             []Obligation
	fresh            int
	contracts        map[string]*Contract // key: fn.String()
	preds            map[string]predDef
	allocN           int
	epochN           int
	inlineDepth      int
	cellClo          map[string]*closureVal // func-typed cell (by location term) -> closure stored there
	log              []string
	havocs           map[string]bool // callee names havocked (for the evidence file)
	assumedStd       map[string]bool // std functions modelled by an assumed contract
	strLits          map[string]string
	fnName           string
	nOrd             map[string]int
	tier             string
	findings         map[string][]Finding // group -> known findings (witness split)
	curFrame         *frame
	paramSyms        []paramSym
	rootPre          *State
	heapAlias        map[string]string
	fnIndex          map[string]*ssa.Function
	readLog          map[string]bool   // when non-nil, heapByName records the heaps it is asked for
	opaqueSig        map[string]string // opaque predicate -> declared uninterpreted symbol
	sumInst          map[string]bool   // ghostsum instances whose defining axioms were emitted
	derivedCache     map[*Contract][2][]Clause
	derivedSteps     map[*Contract]map[int][]Clause
	bitsSyms         map[string]string // float parameter term -> symbol holding its bit pattern (math.Float32bits)
}

type predDef struct {
	params []string
	body   string
	opaque bool
	sum    bool // prefix-sum ghost function (see ghostsum)
}

// State maps heap names to their current SMT term. A heap that is not in the
// map has the value it had at the start of the state's epoch: epoch 0 is the
// function's pre-state, every total havoc (unknown call, loop with unknown
// effects) starts a new epoch in which every heap is a fresh unknown.
type State struct {
	heaps map[string]string // heap name -> current term
	epoch int
}

func (s *State) clone() *State {
	n := &State{heaps: map[string]string{}, epoch: s.epoch}
	for k, v := range s.heaps {
		n.heaps[k] = v
	}
	return n
}

func (e *Engine) newName(prefix string) string {
	e.fresh++
	return fmt.Sprintf("%s!%d", prefix, e.fresh)
}

func (e *Engine) declare(prefix, sort string) string {
	n := e.newName(prefix)
	e.decls = append(e.decls, fmt.Sprintf("(declare-const |%s| %s)", n, sort))
	return "|" + n + "|"
}

func (e *Engine) define(prefix, sort, term string) string {
	n := e.newName(prefix)
	e.decls = append(e.decls, fmt.Sprintf("(define-fun |%s| () %s %s)", n, sort, term))
	return "|" + n + "|"
}

func (e *Engine) assume(reach, prop string) {
	e.decls = append(e.decls, fmt.Sprintf("(assert (=> %s %s))", reach, prop))
}

// oblige records an obligation. group is the claim granularity ("<fn>/post:label");
// member distinguishes the instances inside one group.
func (e *Engine) oblige(kind, group, member, reach, prop string) *Obligation {
	if e.nOrd == nil {
		e.nOrd = map[string]int{}
	}
	name := group
	if member != "" {
		name = group + "@" + member
	}
	e.nOrd[name]++
	if n := e.nOrd[name]; n > 1 {
		name = fmt.Sprintf("%s~%d", name, n)
	}
	if fs := e.findings[group]; len(fs) > 0 && e.curFrame != nil {
		// known finding: split the obligation on the recorded witness. Outside the
		// witness it must still discharge; inside it is expected to be refuted.
		var ws []string
		fr := e.curFrame
		for _, fd := range fs {
			if fd.Fixed {
				continue
			}
			ws = append(ws, fr.evalSpec(fd.Witness, fr.curState(), nil, fr.pre))
		}
		if len(ws) > 0 {
			w := orTerms(ws)
			e.obls = append(e.obls, Obligation{Name: name + "|known", Group: group, Prefix: len(e.decls), Reach: fmt.Sprintf("(and %s %s)", reach, w), Prop: prop, Kind: kind, Fn: e.fnName, Known: true})
			reach = fmt.Sprintf("(and %s (not %s))", reach, w)
		}
	}
	e.obls = append(e.obls, Obligation{Name: name, Group: group, Prefix: len(e.decls), Reach: reach, Prop: prop, Kind: kind, Fn: e.fnName})
	return &e.obls[len(e.obls)-1]
}

// interiorPtr is the term of a pointer value that is tracked only as an address
// path. It is deliberately not a declared symbol: any query that comes to depend
// on the numeric value of such a pointer is rejected by the solvers ("error"),
// so it can never be silently mis-modelled.
const interiorPtr = "|!interior-pointer!|"

func (e *Engine) idxSort() string {
	if e.sc.arith == "int" {
		return "Int"
	}
	return "(_ BitVec 64)"
}

// ---- heap ------------------------------------------------------------------

func canon(t types.Type) types.Type {
	if b, ok := t.(*types.Basic); ok {
		switch b.Kind() {
		case types.Byte:
			return types.Typ[types.Uint8]
		case types.Rune:
			return types.Typ[types.Int32]
		}
	}
	return types.Unalias(t)
}

func (e *Engine) heapName(cellT types.Type, backing bool) (string, string) {
	cellT = canon(cellT)
	if backing {
		return "HA_" + mangle(cellT.String()), fmt.Sprintf("(Array Int (Array %s %s))", e.idxSort(), e.sc.sortOf(cellT))
	}
	return "H_" + mangle(cellT.String()), fmt.Sprintf("(Array Int %s)", e.sc.sortOf(cellT))
}

// Locations are abstract and numbered in allocation order. The k-th allocation
// the engine sees is alloc0 + k*allocGap; allocations it does not see (inside
// havocked or contract-summarised callees, in earlier loop iterations) lie in
// the gaps. A pointer or slice base read from memory when the counter is K is
// therefore below alloc0 + (K+1)*allocGap: it cannot be a later allocation.
const allocGap = 1048576

func (e *Engine) nextLoc() string {
	e.allocN++
	return fmt.Sprintf("(+ alloc0 %d)", e.allocN*allocGap)
}

// tick starts a new allocation epoch (loop header, call): unseen allocations
// made before this point are older than every allocation made after it.
func (e *Engine) tick() { e.allocN++ }

func (e *Engine) locBound(term string) string {
	return fmt.Sprintf("(< %s (+ alloc0 %d))", term, (e.allocN+1)*allocGap)
}

func (e *Engine) declOnce(name, sort string) {
	if e.declared == nil {
		e.declared = map[string]bool{}
	}
	if !e.declared[name] {
		e.declared[name] = true
		e.decls = append(e.decls, fmt.Sprintf("(declare-const %s %s)", name, sort))
	}
}

// redeclare rebuilds the set of declared names from the declaration list (after
// a rollback).
func (e *Engine) redeclare() {
	e.declared = map[string]bool{}
	for _, d := range e.decls {
		if strings.HasPrefix(d, "(declare-const ") {
			rest := d[len("(declare-const "):]
			if strings.HasPrefix(rest, "|") {
				if j := strings.Index(rest[1:], "|"); j >= 0 {
					e.declared[rest[:j+2]] = true
				}
			}
		} else if strings.HasPrefix(d, "(declare-fun ") {
			fs := strings.Fields(d[len("(declare-fun "):])
			if len(fs) > 0 {
				e.declared[fs[0]] = true
			}
		}
	}
	// string literals interned during the failed attempt
	for s, t := range e.strLits {
		base := t[len("(mk_slice "):]
		base = base[:strings.Index(base, " ")]
		if !e.declared[base] {
			delete(e.strLits, s)
		}
	}
}

func epochTerm(n string, epoch int) string {
	if epoch == 0 {
		return "|" + n + "@pre|"
	}
	return fmt.Sprintf("|%s@e%d|", n, epoch)
}

// canonHeap resolves a heap name as written in an assigns clause ("HA_uint8",
// "HA_Token", "H_Writer" - short type names are accepted) to the engine's
// canonical heap name and registers its sort. ok is false for unknown names.
func (e *Engine) canonHeap(n string) (string, bool) {
	if _, ok := e.hsort[n]; ok {
		return n, true
	}
	if e.heapAlias == nil {
		e.heapAlias = map[string]string{}
	}
	if c, ok := e.heapAlias[n]; ok {
		return c, true
	}
	try := func(t types.Type) (string, bool) {
		for _, backing := range []bool{false, true} {
			hn, _ := e.heapNameOnly(t, backing)
			pre := "H_"
			if backing {
				pre = "HA_"
			}
			short := pre + mangle(typeShort(t))
			if hn == n || short == n {
				_, hs := e.heapName(t, backing)
				e.hsort[hn] = hs
				e.heapAlias[n] = hn
				return hn, true
			}
		}
		return "", false
	}
	for _, b := range types.Typ {
		if b.Kind() == types.Invalid || b.Info()&types.IsUntyped != 0 {
			continue
		}
		if c, ok := try(b); ok {
			return c, true
		}
	}
	for _, p := range e.prog.AllPackages() {
		if !strings.HasPrefix(p.Pkg.Path(), modulePrefix) {
			continue
		}
		sc := p.Pkg.Scope()
		for _, name := range sc.Names() {
			if tn, ok := sc.Lookup(name).(*types.TypeName); ok && !tn.IsAlias() {
				if named, ok := tn.Type().(*types.Named); ok && named.TypeParams().Len() > 0 {
					continue
				}
				if c, ok := try(tn.Type()); ok {
					return c, true
				}
				if c, ok := try(types.NewPointer(tn.Type())); ok {
					return c, true
				}
			}
		}
	}
	return "", false
}

func (e *Engine) knownHeap(n string) bool {
	_, ok := e.canonHeap(n)
	return ok
}

func (e *Engine) heapNameOnly(cellT types.Type, backing bool) (string, string) {
	cellT = canon(cellT)
	if backing {
		return "HA_" + mangle(cellT.String()), ""
	}
	return "H_" + mangle(cellT.String()), ""
}

func (e *Engine) heapByName(st *State, n string) string {
	if e.readLog != nil {
		e.readLog[n] = true
	}
	if t, ok := st.heaps[n]; ok {
		return t
	}
	t := epochTerm(n, st.epoch)
	e.declOnce(t, e.hsort[n])
	st.heaps[n] = t
	return t
}

func (e *Engine) heapTerm(st *State, cellT types.Type, backing bool) string {
	n, srt := e.heapName(cellT, backing)
	if e.hsort == nil {
		e.hsort = map[string]string{}
	}
	e.hsort[n] = srt
	return e.heapByName(st, n)
}

// assumePre records the pre-state type invariant for the location a: whatever
// was stored there when the function was entered is a well-formed value whose
// pointers and slice bases are pre-existing locations (below alloc0). The
// solver transfers the fact to the current content where it is unchanged.
func (e *Engine) assumePre(a *Addr, t types.Type) {
	if e.rootPre == nil || a.cell == interiorPtr {
		return
	}
	for _, s := range a.path {
		if s.isIndex && strings.Contains(s.index, "q_") {
			return
		}
	}
	if strings.Contains(a.cell, "q_") {
		return
	}
	pv := Val{term: e.load(e.rootPre, a), typ: t}
	e.preBound(pv, 0)
}

func (e *Engine) preBound(v Val, depth int) {
	switch u := v.typ.Underlying().(type) {
	case *types.Pointer:
		e.decls = append(e.decls, fmt.Sprintf("(assert (< %s alloc0))", v.term))
	case *types.Map:
		// a map that existed when the function was entered is not one it makes later
		e.decls = append(e.decls, fmt.Sprintf("(assert (and (>= %s 0) (< %s alloc0)))", v.term, v.term))
	case *types.Slice:
		e.decls = append(e.decls, fmt.Sprintf("(assert (< (s_base %s) alloc0))", v.term))
		e.assumeRange("true", v)
	case *types.Struct:
		if depth >= 2 {
			return
		}
		sn := e.sc.sortOf(v.typ)
		for i := 0; i < u.NumFields(); i++ {
			ft := u.Field(i).Type()
			switch ft.Underlying().(type) {
			case *types.Pointer, *types.Slice, *types.Struct, *types.Map:
				e.preBound(Val{term: fmt.Sprintf("(%s_f%d %s)", sn, i, v.term), typ: ft}, depth+1)
			}
		}
	}
}

func (e *Engine) load(st *State, a *Addr) string {
	h := e.heapTerm(st, a.cellT, a.backing)
	cur := fmt.Sprintf("(select %s %s)", h, a.cell)
	curT := a.cellT
	first := true
	for _, s := range a.path {
		if s.isIndex {
			cur = fmt.Sprintf("(select %s %s)", cur, s.index)
		} else {
			sn := e.sc.sortOf(curT)
			cur = fmt.Sprintf("(%s_f%d %s)", sn, s.field, cur)
		}
		if !(first && a.backing) {
			// nothing
		}
		first = false
		curT = s.typ
	}
	return cur
}

// update returns the term for "content" with the path replaced by v.
func (e *Engine) update(content string, contentT types.Type, isArrayLevel bool, path []step, v string) string {
	if len(path) == 0 {
		return v
	}
	s := path[0]
	if s.isIndex {
		inner := fmt.Sprintf("(select %s %s)", content, s.index)
		return fmt.Sprintf("(store %s %s %s)", content, s.index, e.update(inner, s.typ, false, path[1:], v))
	}
	sn := e.sc.sortOf(contentT)
	st := contentT.Underlying().(*types.Struct)
	var parts []string
	for i := 0; i < st.NumFields(); i++ {
		f := fmt.Sprintf("(%s_f%d %s)", sn, i, content)
		if i == s.field {
			f = e.update(f, s.typ, false, path[1:], v)
		}
		parts = append(parts, f)
	}
	return fmt.Sprintf("(mk_%s %s)", sn, strings.Join(parts, " "))
}

func (e *Engine) store(st *State, a *Addr, v string) {
	h := e.heapTerm(st, a.cellT, a.backing)
	n, srt := e.heapName(a.cellT, a.backing)
	old := fmt.Sprintf("(select %s %s)", h, a.cell)
	nc := e.update(old, a.cellT, a.backing, a.path, v)
	if a.cell == interiorPtr {
		panic("store through untracked interior pointer")
	}
	st.heaps[n] = e.define(n, srt, fmt.Sprintf("(store %s %s %s)", h, a.cell, nc))
}

func (e *Engine) alloc(st *State, cellT types.Type, backing bool, init string) string {
	loc := e.nextLoc()
	h := e.heapTerm(st, cellT, backing)
	n, srt := e.heapName(cellT, backing)
	st.heaps[n] = e.define(n, srt, fmt.Sprintf("(store %s %s %s)", h, loc, init))
	return loc
}

// ---- integer helpers --------------------------------------------------------

func (e *Engine) width(t types.Type) (int, bool) {
	return intWidth(t.Underlying().(*types.Basic))
}

func (e *Engine) constTerm(c constant.Value, t types.Type) string {
	switch u := t.Underlying().(type) {
	case *types.Basic:
		if u.Info()&types.IsString != 0 {
			// opaque string constant: a fresh slice header with the right length
			s := constant.StringVal(c)
			b := e.declare("strbase", "Int")
			return fmt.Sprintf("(mk_slice %s %s %s %s)", b, e.idxLit(0), e.idxLit(int64(len(s))), e.idxLit(int64(len(s))))
		}
		if u.Info()&types.IsFloat != 0 {
			eb, sb := 11, 53
			if u.Kind() == types.Float32 {
				eb, sb = 8, 24
			}
			r := constant.ToFloat(c)
			num, den := constant.Num(r), constant.Denom(r)
			neg := constant.Sign(num) < 0
			ns := strings.TrimPrefix(num.ExactString(), "-")
			t := fmt.Sprintf("((_ to_fp %d %d) RNE (/ %s.0 %s.0))", eb, sb, ns, den.ExactString())
			if neg {
				t = "(fp.neg " + t + ")"
			}
			return t
		}
		if u.Info()&types.IsBoolean != 0 {
			if constant.BoolVal(c) {
				return "true"
			}
			return "false"
		}
		if u.Info()&types.IsInteger != 0 {
			if e.sc.arith == "int" {
				s := c.ExactString()
				if strings.HasPrefix(s, "-") {
					return "(- " + s[1:] + ")"
				}
				return s
			}
			w, _ := intWidth(u)
			if v, ok := constant.Int64Val(c); ok {
				return bvLit(uint64(v), w)
			}
			if v, ok := constant.Uint64Val(c); ok {
				return bvLit(v, w)
			}
		}
	}
	if c == nil {
		return e.sc.zero(t)
	}
	panic("constTerm: unsupported " + t.String())
}

func fpParams(t types.Type) (int, int, bool) {
	if b, ok := t.Underlying().(*types.Basic); ok {
		switch b.Kind() {
		case types.Float32:
			return 8, 24, true
		case types.Float64, types.UntypedFloat:
			return 11, 53, true
		}
	}
	return 0, 0, false
}

func (e *Engine) convert(x string, from, to types.Type) string {
	if feb, fsb, ok := fpParams(from); ok {
		if teb, tsb, ok2 := fpParams(to); ok2 {
			if feb == teb && fsb == tsb {
				return x
			}
			return fmt.Sprintf("((_ to_fp %d %d) RNE %s)", teb, tsb, x)
		}
		if isInt(to) && e.sc.arith == "bv" {
			w, signed := e.width(to)
			if signed {
				return fmt.Sprintf("((_ fp.to_sbv %d) RTZ %s)", w, x)
			}
			return fmt.Sprintf("((_ fp.to_ubv %d) RTZ %s)", w, x)
		}
		if isInt(to) && e.sc.arith == "int" {
			// exact when representable; otherwise some value of the target type (Go: implementation-dependent)
			w, signed := e.width(to)
			lo, hi := "0", pow2(w)
			if signed {
				lo, hi = "(- "+pow2(w-1)+")", pow2(w-1)
			}
			r := e.declare("f2i", "Int")
			exact := fmt.Sprintf("(to_int (fp.to_real (fp.roundToIntegral RTZ %s)))", x)
			e.decls = append(e.decls, fmt.Sprintf("(assert (and (<= %s %s) (< %s %s)))", lo, r, r, hi))
			e.decls = append(e.decls, fmt.Sprintf("(assert (=> (and (not (fp.isNaN %s)) (not (fp.isInfinite %s)) (<= %s %s) (< %s %s)) (= %s %s)))", x, x, lo, exact, exact, hi, r, exact))
			return r
		}
	}
	if teb, tsb, ok := fpParams(to); ok && isInt(from) && e.sc.arith == "bv" {
		_, signed := e.width(from)
		if signed {
			return fmt.Sprintf("((_ to_fp %d %d) RNE %s)", teb, tsb, x)
		}
		return fmt.Sprintf("((_ to_fp_unsigned %d %d) RNE %s)", teb, tsb, x)
	}
	if teb, tsb, ok := fpParams(to); ok && isInt(from) && e.sc.arith == "int" {
		return fmt.Sprintf("((_ to_fp %d %d) RNE (to_real %s))", teb, tsb, x)
	}
	if !isInt(from) || !isInt(to) {
		if types.Identical(from.Underlying(), to.Underlying()) {
			return x
		}
		panic(fmt.Sprintf("convert %s -> %s unsupported", from, to))
	}
	fw, fs := e.width(from)
	tw, ts := e.width(to)
	if e.sc.arith == "int" {
		// value-preserving conversions are the identity on mathematical integers
		if (fs == ts && tw >= fw) || (!fs && ts && tw > fw) {
			return x
		}
		// wrap into target range
		mod := new(bigInt).Lsh1(tw)
		if ts {
			half := new(bigInt).Lsh1(tw - 1)
			return fmt.Sprintf("(- (mod (+ %s %s) %s) %s)", x, half, mod, half)
		}
		_ = fw
		_ = fs
		return fmt.Sprintf("(mod %s %s)", x, mod)
	}
	switch {
	case tw == fw:
		return x
	case tw < fw:
		return fmt.Sprintf("((_ extract %d 0) %s)", tw-1, x)
	case fs:
		return fmt.Sprintf("((_ sign_extend %d) %s)", tw-fw, x)
	default:
		return fmt.Sprintf("((_ zero_extend %d) %s)", tw-fw, x)
	}
}

type bigInt struct{ s string }

func (b *bigInt) Lsh1(n int) string {
	// 2^n as decimal string
	v := []int{1}
	for i := 0; i < n; i++ {
		carry := 0
		for j := range v {
			d := v[j]*2 + carry
			v[j] = d % 10
			carry = d / 10
		}
		if carry > 0 {
			v = append(v, carry)
		}
	}
	var sb strings.Builder
	for i := len(v) - 1; i >= 0; i-- {
		sb.WriteByte(byte('0' + v[i]))
	}
	return sb.String()
}

func (e *Engine) binop(op token.Token, x, y string, xt, yt types.Type) string {
	if b, ok := xt.Underlying().(*types.Basic); ok && b.Info()&types.IsBoolean != 0 {
		switch op {
		case token.EQL:
			return fmt.Sprintf("(= %s %s)", x, y)
		case token.NEQ:
			return fmt.Sprintf("(not (= %s %s))", x, y)
		case token.LAND, token.AND:
			return fmt.Sprintf("(and %s %s)", x, y)
		case token.LOR, token.OR:
			return fmt.Sprintf("(or %s %s)", x, y)
		}
	}
	if b, ok := xt.Underlying().(*types.Basic); ok && b.Info()&types.IsFloat != 0 {
		switch op {
		case token.ADD:
			return fmt.Sprintf("(fp.add RNE %s %s)", x, y)
		case token.SUB:
			return fmt.Sprintf("(fp.sub RNE %s %s)", x, y)
		case token.MUL:
			return fmt.Sprintf("(fp.mul RNE %s %s)", x, y)
		case token.QUO:
			return fmt.Sprintf("(fp.div RNE %s %s)", x, y)
		case token.EQL:
			return fmt.Sprintf("(fp.eq %s %s)", x, y)
		case token.NEQ:
			return fmt.Sprintf("(not (fp.eq %s %s))", x, y)
		case token.LSS:
			return fmt.Sprintf("(fp.lt %s %s)", x, y)
		case token.LEQ:
			return fmt.Sprintf("(fp.leq %s %s)", x, y)
		case token.GTR:
			return fmt.Sprintf("(fp.gt %s %s)", x, y)
		case token.GEQ:
			return fmt.Sprintf("(fp.geq %s %s)", x, y)
		}
	}
	if !isInt(xt) {
		switch op {
		case token.EQL:
			return fmt.Sprintf("(= %s %s)", x, y)
		case token.NEQ:
			return fmt.Sprintf("(not (= %s %s))", x, y)
		}
		panic(fmt.Sprintf("binop %v on %s unsupported", op, xt))
	}
	w, signed := e.width(xt)
	if e.sc.arith == "int" {
		wrap := func(t string) string {
			if w == 64 && signed {
				// exact when no overflow; the no-overflow side condition is emitted by the caller (runBlock)
				return t
			}
			return e.convert(t, xt, xt)
		}
		switch op {
		case token.ADD:
			return wrap(fmt.Sprintf("(+ %s %s)", x, y))
		case token.SUB:
			return wrap(fmt.Sprintf("(- %s %s)", x, y))
		case token.MUL:
			return wrap(fmt.Sprintf("(* %s %s)", x, y))
		case token.QUO:
			if signed {
				// Go truncated division
				return wrap(fmt.Sprintf("(ite (>= %s 0) (ite (> %s 0) (div %s %s) (- (div %s (- %s)))) (ite (> %s 0) (- (div (- %s) %s)) (div (- %s) (- %s))))", x, y, x, y, x, y, y, x, y, x, y))
			}
			return fmt.Sprintf("(div %s %s)", x, y)
		case token.REM:
			if signed {
				return fmt.Sprintf("(ite (>= %s 0) (mod %s (abs %s)) (- (mod (- %s) (abs %s))))", x, x, y, x, y)
			}
			return fmt.Sprintf("(mod %s %s)", x, y)
		case token.EQL:
			return fmt.Sprintf("(= %s %s)", x, y)
		case token.NEQ:
			return fmt.Sprintf("(not (= %s %s))", x, y)
		case token.LSS:
			return fmt.Sprintf("(< %s %s)", x, y)
		case token.LEQ:
			return fmt.Sprintf("(<= %s %s)", x, y)
		case token.GTR:
			return fmt.Sprintf("(> %s %s)", x, y)
		case token.GEQ:
			return fmt.Sprintf("(>= %s %s)", x, y)
		}
		// bit operations in int mode: constants shifts and masks are arithmetic;
		// a general | gets true-but-partial facts (bounds, and exact value when the
		// operands occupy disjoint bit ranges split at 8/16/24/32)
		if c, ok := intConst(y); ok && (op == token.SHL || op == token.SHR) {
			if op == token.SHL {
				return wrap(fmt.Sprintf("(* %s %s)", x, pow2(int(c))))
			}
			if !signed {
				return fmt.Sprintf("(div %s %s)", x, pow2(int(c)))
			}
		}
		if c, ok := intConst(y); ok && op == token.AND && c >= 0 && c&(c+1) == 0 && !signed {
			return fmt.Sprintf("(mod %s %d)", x, c+1)
		}
		if op == token.OR && !signed {
			r := e.declare("or", "Int")
			facts := []string{fmt.Sprintf("(>= %s %s)", r, x), fmt.Sprintf("(>= %s %s)", r, y), fmt.Sprintf("(<= %s (+ %s %s))", r, x, y)}
			for _, k := range []int{8, 16, 24, 32} {
				p := pow2(k)
				facts = append(facts, fmt.Sprintf("(=> (and (= (mod %s %s) 0) (< %s %s)) (= %s (+ %s %s)))", x, p, y, p, r, x, y))
				facts = append(facts, fmt.Sprintf("(=> (and (= (mod %s %s) 0) (< %s %s)) (= %s (+ %s %s)))", y, p, x, p, r, x, y))
			}
			e.decls = append(e.decls, "(assert (and "+strings.Join(facts, " ")+"))")
			return r
		}
		panic(fmt.Sprintf("int-mode binop %v unsupported", op))
	}
	cmp := func(s, u string) string {
		if signed {
			return fmt.Sprintf("(%s %s %s)", s, x, y)
		}
		return fmt.Sprintf("(%s %s %s)", u, x, y)
	}
	switch op {
	case token.ADD:
		return fmt.Sprintf("(bvadd %s %s)", x, y)
	case token.SUB:
		return fmt.Sprintf("(bvsub %s %s)", x, y)
	case token.MUL:
		return fmt.Sprintf("(bvmul %s %s)", x, y)
	case token.QUO:
		return cmp("bvsdiv", "bvudiv")
	case token.REM:
		return cmp("bvsrem", "bvurem")
	case token.AND:
		return fmt.Sprintf("(bvand %s %s)", x, y)
	case token.OR:
		return fmt.Sprintf("(bvor %s %s)", x, y)
	case token.XOR:
		return fmt.Sprintf("(bvxor %s %s)", x, y)
	case token.AND_NOT:
		return fmt.Sprintf("(bvand %s (bvnot %s))", x, y)
	case token.SHL, token.SHR:
		// shift count y has its own type; normalise to width w
		yw, _ := e.width(yt)
		var cnt string
		var big string
		switch {
		case yw == w:
			cnt = y
			big = fmt.Sprintf("(bvuge %s %s)", y, bvLit(uint64(w), w))
		case yw > w:
			cnt = fmt.Sprintf("((_ extract %d 0) %s)", w-1, y)
			big = fmt.Sprintf("(bvuge %s %s)", y, bvLit(uint64(w), yw))
		default:
			cnt = fmt.Sprintf("((_ zero_extend %d) %s)", w-yw, y)
			big = fmt.Sprintf("(bvuge %s %s)", cnt, bvLit(uint64(w), w))
		}
		if op == token.SHL {
			return fmt.Sprintf("(ite %s %s (bvshl %s %s))", big, bvLit(0, w), x, cnt)
		}
		if signed {
			return fmt.Sprintf("(ite %s (bvashr %s %s) (bvashr %s %s))", big, x, bvLit(uint64(w-1), w), x, cnt)
		}
		return fmt.Sprintf("(ite %s %s (bvlshr %s %s))", big, bvLit(0, w), x, cnt)
	case token.EQL:
		return fmt.Sprintf("(= %s %s)", x, y)
	case token.NEQ:
		return fmt.Sprintf("(not (= %s %s))", x, y)
	case token.LSS:
		return cmp("bvslt", "bvult")
	case token.LEQ:
		return cmp("bvsle", "bvule")
	case token.GTR:
		return cmp("bvsgt", "bvugt")
	case token.GEQ:
		return cmp("bvsge", "bvuge")
	}
	panic(fmt.Sprintf("binop %v unsupported", op))
}

// index helpers in the index sort
func (e *Engine) idxLit(v int64) string {
	if e.sc.arith == "int" {
		return fmt.Sprintf("%d", v)
	}
	return bvLit(uint64(v), 64)
}
func (e *Engine) idxAdd(a, b string) string {
	if e.sc.arith == "int" {
		return fmt.Sprintf("(+ %s %s)", a, b)
	}
	return fmt.Sprintf("(bvadd %s %s)", a, b)
}
func (e *Engine) idxSub(a, b string) string {
	if e.sc.arith == "int" {
		return fmt.Sprintf("(- %s %s)", a, b)
	}
	return fmt.Sprintf("(bvsub %s %s)", a, b)
}
func (e *Engine) idxLt(a, b string) string { // unsigned/“0<=a<b” style
	if e.sc.arith == "int" {
		return fmt.Sprintf("(and (<= 0 %s) (< %s %s))", a, a, b)
	}
	return fmt.Sprintf("(bvult %s %s)", a, b)
}
func (e *Engine) idxLe(a, b string) string {
	if e.sc.arith == "int" {
		return fmt.Sprintf("(<= %s %s)", a, b)
	}
	return fmt.Sprintf("(bvule %s %s)", a, b)
}

// intConst parses an SMT integer literal term.
func intConst(t string) (int64, bool) {
	var v int64
	if _, err := fmt.Sscanf(t, "%d", &v); err == nil && fmt.Sprint(v) == t {
		return v, true
	}
	return 0, false
}

// fnByKey yields the function whose fn.String() is key (contracts are keyed by it).
func (e *Engine) fnByKey(key string) map[*ssa.Function]bool {
	out := map[*ssa.Function]bool{}
	if e.fnIndex != nil {
		if f, ok := e.fnIndex[key]; ok {
			out[f] = true
		}
	}
	return out
}
