package main

import (
	"encoding/json"
	"fmt"
	"go/ast"
	"go/constant"
	"go/parser"
	"go/token"
	"go/types"
	"os"
	"path/filepath"
	"regexp"
	"runtime"
	"sort"
	"strings"
	"sync"
	"time"

	"golang.org/x/tools/go/packages"
	"golang.org/x/tools/go/ssa"
	"golang.org/x/tools/go/ssa/ssautil"
)

const repoDir = "/repo"
const verifDir = "/verif"

type CheckOpts struct {
	Prop    string
	Tier    string
	Seed    int
	Only    string // substring filter on function names (development)
	Update  bool   // rewrite the expected-groups file
	Overlay map[string][]byte
	OutDir  string
	Quiet   bool
	Silent  bool
	NoEvid  bool
	Timeout time.Duration
	Workers int
}

type FnReport struct {
	Name     string
	Err      string // binding / outside-subset error
	Results  []Result
	Havocs   []string
	Assumed  []string
	Mode     string
	Secs     float64
	Contract *Contract
	fn       *ssa.Function
	prog     *ssa.Program
	preds    map[string]predDef
	params   []paramSym
	bitsSyms map[string]string
}

// contractDirs finds every package directory of /repo that has a contract file.
func contractDirs() []string {
	var dirs []string
	filepath.Walk(repoDir, func(p string, info os.FileInfo, err error) error {
		if err != nil {
			return nil
		}
		if info.IsDir() && (info.Name() == ".git" || info.Name() == "testdata" || info.Name() == "vendor") {
			return filepath.SkipDir
		}
		if !info.IsDir() && info.Name() == "zz_verif_contracts.go" {
			dirs = append(dirs, filepath.Dir(p))
		}
		return nil
	})
	sort.Strings(dirs)
	return dirs
}

// preParse reads the contract files textually to learn which packages carry
// contracts for the property, before the expensive type-checked load.
func preParse(dirs []string, overlay map[string][]byte) *ContractSet {
	cs := &ContractSet{Preds: map[string]predDef{}, ByKey: map[string]*Contract{}}
	fset := token.NewFileSet()
	for _, d := range dirs {
		fn := filepath.Join(d, "zz_verif_contracts.go")
		var src any
		if b, ok := overlay[fn]; ok {
			src = b
		}
		f, err := parser.ParseFile(fset, fn, src, parser.ParseComments)
		if err != nil {
			cs.Errors = append(cs.Errors, err.Error())
			continue
		}
		rel, _ := filepath.Rel(repoDir, d)
		pkgPath := modulePrefix
		if rel != "." {
			pkgPath += "/" + filepath.ToSlash(rel)
		}
		cs.parseFile(pkgPath, fn, f)
	}
	return cs
}

var lastPkgs []*packages.Package
var lastPkgsMu sync.Mutex

func loadProgram(pkgPaths []string, overlay map[string][]byte) (*ssa.Program, error) {
	prog, pkgs, err := loadProgramPkgs(pkgPaths, overlay)
	_ = pkgs
	return prog, err
}

func loadProgramPkgs(pkgPaths []string, overlay map[string][]byte) (*ssa.Program, []*packages.Package, error) {
	prog, err := loadProgram0(pkgPaths, overlay, func(p []*packages.Package) {
		lastPkgsMu.Lock()
		lastPkgs = p
		lastPkgsMu.Unlock()
	})
	lastPkgsMu.Lock()
	defer lastPkgsMu.Unlock()
	return prog, lastPkgs, err
}

func loadProgram0(pkgPaths []string, overlay map[string][]byte, keep func([]*packages.Package)) (*ssa.Program, error) {
	cfg := &packages.Config{Mode: packages.LoadAllSyntax, Dir: repoDir, BuildFlags: []string{"-tags=verif"}, Overlay: overlay}
	pkgs, err := packages.Load(cfg, pkgPaths...)
	if err != nil {
		return nil, err
	}
	var errs []string
	packages.Visit(pkgs, nil, func(p *packages.Package) {
		for _, e := range p.Errors {
			errs = append(errs, e.Error())
		}
	})
	if len(errs) > 0 {
		return nil, fmt.Errorf("package errors: %s", strings.Join(errs, "; "))
	}
	prog, _ := ssautil.AllPackages(pkgs, ssa.InstantiateGenerics|ssa.GlobalDebug)
	prog.Build()
	if keep != nil {
		keep(pkgs)
	}
	return prog, nil
}

func loadFindings() ([]Finding, error) {
	b, err := os.ReadFile(filepath.Join(verifDir, "known_findings.txt"))
	if err != nil {
		if os.IsNotExist(err) {
			return nil, nil
		}
		return nil, err
	}
	var out []Finding
	for _, ln := range strings.Split(string(b), "\n") {
		ln = strings.TrimSpace(ln)
		if ln == "" || strings.HasPrefix(ln, "#") {
			continue
		}
		kv := parseKV(ln)
		switch {
		case strings.HasPrefix(ln, "finding:"):
			out = append(out, Finding{Property: kv["property"], Group: kv["group"], Witness: kv["witness"], Input: kv["input"], What: kv["what"]})
		case strings.HasPrefix(ln, "fixed:"):
			out = append(out, Finding{Property: kv["property"], Group: kv["group"], What: kv["what"], Commit: kv["commit"], Fixed: true})
		default:
			return nil, fmt.Errorf("known_findings.txt: bad line: %s", ln)
		}
	}
	return out, nil
}

// parseKV parses key=value and key="quoted value" pairs.
func parseKV(s string) map[string]string {
	out := map[string]string{}
	i := 0
	for i < len(s) {
		for i < len(s) && (s[i] == ' ' || s[i] == '\t') {
			i++
		}
		j := i
		for j < len(s) && s[j] != '=' && s[j] != ' ' {
			j++
		}
		if j >= len(s) || s[j] != '=' {
			i = j + 1
			continue
		}
		key := s[i:j]
		j++
		if j < len(s) && s[j] == '"' {
			k := j + 1
			var sb strings.Builder
			for k < len(s) && s[k] != '"' {
				if s[k] == '\\' && k+1 < len(s) {
					k++
				}
				sb.WriteByte(s[k])
				k++
			}
			out[key] = sb.String()
			i = k + 1
		} else {
			k := j
			for k < len(s) && s[k] != ' ' {
				k++
			}
			out[key] = s[j:k]
			i = k
		}
	}
	return out
}

type CheckResult struct {
	Code                    int
	Violations              []string
	Known                   []string
	Obligations, Discharged int
}

func runCheck(o CheckOpts) int { return runCheckFull(o).Code }

func runCheckFull(o CheckOpts) (cr CheckResult) {
	t0 := time.Now()
	if o.Timeout == 0 {
		o.Timeout = 20 * time.Second
		if o.Tier == "thorough" {
			o.Timeout = 120 * time.Second
		}
	}
	if o.Workers == 0 {
		o.Workers = 16
	}
	// a machine that is already busy gets proportionally longer limits
	if f := loadFactor(); f > 1 {
		o.Timeout = time.Duration(float64(o.Timeout) * f)
	}
	if o.OutDir == "" {
		o.OutDir = filepath.Join(verifDir, "out", o.Prop+"-"+o.Tier)
	}
	os.RemoveAll(o.OutDir)
	os.MkdirAll(filepath.Join(o.OutDir, "smt"), 0o755)

	say := func(format string, a ...any) {
		if o.Silent {
			return
		}
		fmt.Printf(format+"\n", a...)
	}
	engineFail := func(msg string) CheckResult {
		say("ENGINE-FAILED property=%s %s", o.Prop, msg)
		return CheckResult{Code: 2, Violations: []string{"ENGINE-FAILED " + msg}}
	}
	allFindings, err := loadFindings()
	if err != nil {
		return engineFail(err.Error())
	}
	findings := map[string][]Finding{}
	for _, fd := range allFindings {
		if fd.Property == o.Prop {
			findings[fd.Group] = append(findings[fd.Group], fd)
		}
	}
	dirs := contractDirs()
	pre := preParse(dirs, o.Overlay)
	var violations []string
	violate := func(obl, reason, detail string, confirmed bool, extra map[string]string) {
		dir := filepath.Join(o.OutDir, "replay", fileSafe(obl))
		os.MkdirAll(dir, 0o755)
		os.WriteFile(filepath.Join(dir, "obligation.txt"), []byte(fmt.Sprintf("property=%s\nobligation=%s\nreason=%s\n", o.Prop, obl, reason)), 0o644)
		os.WriteFile(filepath.Join(dir, "solver.txt"), []byte(detail), 0o644)
		for k, v := range extra {
			os.WriteFile(filepath.Join(dir, k), []byte(v), 0o644)
		}
		line := fmt.Sprintf("VIOLATION property=%s replay=%s", o.Prop, dir)
		if !confirmed {
			line += " obligation=" + obl + " reason=" + reason + " no-failing-input-found"
		} else {
			line += " obligation=" + obl + " reason=" + reason
		}
		violations = append(violations, line)
	}
	for _, e := range pre.Errors {
		violate("contract-files", "contract-does-not-parse", e, false, nil)
	}
	pkgSet := map[string]bool{}
	var mine []*Contract
	for _, c := range pre.Contracts {
		if c.hasTag(o.Prop) {
			if o.Only != "" && !strings.Contains(c.Fn, o.Only) {
				continue
			}
			mine = append(mine, c)
			pkgSet[c.Pkg] = true
		}
	}
	var myConsts []ConstCheck
	for _, c := range pre.Consts {
		for _, t := range c.Tags {
			if t == o.Prop && (o.Only == "" || strings.Contains(c.Name, o.Only)) {
				myConsts = append(myConsts, c)
				pkgSet[c.Pkg] = true
			}
		}
	}
	var myTables []*TableCheck
	for _, t := range pre.Tables {
		for _, tg := range t.Tags {
			if tg == o.Prop && (o.Only == "" || strings.Contains(t.Var, o.Only)) {
				myTables = append(myTables, t)
				pkgSet[t.Pkg] = true
			}
		}
	}
	expected := readExpected(o.Prop)
	if len(mine) == 0 && len(myConsts) == 0 && len(myTables) == 0 {
		if len(expected) > 0 && o.Only == "" {
			violate("contract-files", "contract-does-not-bind", "no contract carries tag "+o.Prop+" any more", false, nil)
		} else {
			return engineFail("no contracts tagged " + o.Prop)
		}
	}
	// callee contracts of other packages are needed too: load every contract package
	// that the selected packages could call into (cheap: all of them share one load)
	var pkgPaths []string
	for _, c := range pre.Contracts {
		if !pkgSet[c.Pkg] {
			// only packages that carry selected contracts are roots; their deps are loaded anyway
			continue
		}
	}
	for p := range pkgSet {
		pkgPaths = append(pkgPaths, p)
	}
	sort.Strings(pkgPaths)
	var reports []*FnReport
	if len(pkgPaths) > 0 {
		prog, pkgs, err := loadProgramPkgs(pkgPaths, o.Overlay)
		if err != nil {
			return engineFail("cannot load /repo with -tags=verif: " + err.Error())
		}
		tLoad := time.Since(t0).Seconds()
		if !o.Quiet {
			say("load+ssa: %.1fs, %d functions under contract for %s", tLoad, len(mine), o.Prop)
		}
		all := map[string]*Contract{}
		ix := fnIndex(progFnIndex(prog))
		for _, c := range pre.Contracts {
			if fn := ix.find(c.Pkg, c.Fn); fn != nil {
				all[fn.String()] = c
			}
		}
		reports = verifyAll(prog, ix, mine, all, pre.Preds, findings, o)
		if len(myConsts) > 0 {
			reports = append(reports, checkConsts(prog, myConsts))
		}
		if len(myTables) > 0 {
			reports = append(reports, checkTables(pkgs, myTables))
		}
	}
	// ---- verdicts ---------------------------------------------------------
	type groupInfo struct {
		kind    string
		members []Result
		fn      string
	}
	groups := map[string]*groupInfo{}
	var order []string
	nObl, nDis := 0, 0
	bySolver := map[string][2]float64{}
	var allRes []Result
	known := map[string]bool{}
	var undecidedExtra []string
	for _, rep := range reports {
		if rep.Err != "" {
			violate(rep.Name, "contract-does-not-bind", rep.Err, false, nil)
			continue
		}
		for _, r := range rep.Results {
			g := groups[r.Group]
			if g == nil {
				g = &groupInfo{kind: r.Kind, fn: r.Fn}
				groups[r.Group] = g
				order = append(order, r.Group)
			}
			g.members = append(g.members, r)
			allRes = append(allRes, r)
		}
	}
	sort.Strings(order)
	for _, gname := range order {
		g := groups[gname]
		for _, r := range g.members {
			if r.Kind == "cover" {
				if strings.HasSuffix(r.Name, "@requires") && r.Verdict == "unsat" {
					say("ENGINE-SELFTEST-FAILED property=%s vacuous precondition: %s", o.Prop, r.Name)
					return CheckResult{Code: 2}
				}
				continue
			}
			if r.Known {
				if r.Verdict != "unsat" {
					for _, fd := range findings[gname] {
						if !fd.Fixed {
							known[fmt.Sprintf("KNOWN-FINDING: property=%s group=%s input=%q %s", o.Prop, gname, fd.Input, fd.What)] = true
						}
					}
				}
				continue
			}
			nObl++
			s := bySolver[r.Solver]
			s[0]++
			s[1] += r.Secs
			bySolver[r.Solver] = s
			if r.ok() {
				nDis++
				if r.Cross != "" && strings.HasSuffix(r.Cross, ":sat") {
					say("ENGINE-SELFTEST-FAILED property=%s solvers disagree on %s (%s unsat, %s)", o.Prop, r.Name, r.Solver, r.Cross)
					return CheckResult{Code: 2}
				}
				continue
			}
			reason := "obligation-not-discharged:" + r.Verdict
			detail := fmt.Sprintf("obligation %s\nverdict %s (solver %s, %.1fs)\nquery %s\n\n%s", r.Name, r.Verdict, r.Solver, r.Secs, r.File, r.Model)
			extra := map[string]string{}
			if b, err := os.ReadFile(r.File); err == nil {
				extra["query.smt2"] = string(b)
			}
			confirmed := false
			if r.Verdict == "sat" && r.Model != "" {
				if rp := tryReplay(o, r, reports); rp != nil {
					for k, v := range rp.files {
						extra[k] = v
					}
					detail += "\n" + rp.log
					confirmed = rp.confirmed
					if confirmed {
						reason = "refuted-and-replayed"
					}
				}
			}
			violate(r.Name, reason, detail, confirmed, extra)
		}
	}
	// expected groups
	if o.Update {
		writeExpected(o.Prop, groups2list(order, func(g string) string { return groups[g].kind }))
	} else if o.Only == "" && len(o.Overlay) == 0 || o.Only == "" {
		have := map[string]bool{}
		for _, g := range order {
			have[g] = true
		}
		// groups of functions whose contract did not bind are already reported
		failedFn := map[string]bool{}
		for _, rep := range reports {
			if rep.Err != "" {
				failedFn[rep.Name] = true
			}
		}
		for _, ex := range expected {
			if have[ex.group] {
				continue
			}
			if ex.slow && o.Tier != "thorough" {
				continue
			}
			fnName := ex.group
			if i := strings.Index(fnName, "/"); i >= 0 {
				// group = <pkg label>.<fn>/<kind>; pkg label may contain '/'
				fnName = groupFn(ex.group)
			}
			if failedFn[fnName] {
				continue
			}
			if ex.kind == "nopanic" || ex.kind == "overflow" || ex.kind == "pre" || ex.kind == "cover" {
				continue // these groups legitimately vanish when the code has no such operation any more
			}
			violate(ex.group, "contract-does-not-bind", "expected obligation group is no longer generated (contract removed or function reshaped)", false, nil)
		}
	}
	var knownLines []string
	for k := range known {
		knownLines = append(knownLines, k)
	}
	sort.Strings(knownLines)
	for _, k := range knownLines {
		say("%s", k)
	}
	for _, v := range violations {
		say("%s", v)
	}
	if os.Getenv("GOVC_PROFILE") != "" {
		perFn := map[string][2]float64{}
		for _, r := range allRes {
			p := perFn[r.Fn]
			p[0]++
			p[1] += r.Secs
			perFn[r.Fn] = p
		}
		for fn, p := range perFn {
			fmt.Fprintf(os.Stderr, "profile %-70s %5.0f obligations %8.1f solver-s\n", fn, p[0], p[1])
		}
	}
	wall := time.Since(t0).Seconds()
	if !o.Quiet {
		say("property %s tier %s: %d obligations, %d discharged, %d known findings, %d violations, %.1fs (undecided extras: %d)", o.Prop, o.Tier, nObl, nDis, len(knownLines), len(violations), wall, len(undecidedExtra))
	}
	if !o.NoEvid {
		writeEvidence(o, reports, allRes, nObl, nDis, bySolver, knownLines, violations, wall)
	}
	if len(violations) == 0 && os.Getenv("GOVC_KEEP_QUERIES") == "" {
		pruneQueries(o)
	}
	cr = CheckResult{Violations: violations, Known: knownLines, Obligations: nObl, Discharged: nDis}
	if len(violations) > 0 {
		cr.Code = 1
	}
	return cr
}

// groupFn extracts "<pkg>.<fn>" from "<pkg>.<fn>/<kind>…": the function part is
// everything up to the last "/" that precedes a known kind keyword.
func groupFn(g string) string {
	for _, k := range []string{"/post:", "/pre@", "/at@", "/loop", "/nopanic", "/overflow", "/frame", "/cover", "/lemma:", "/traverse:", "/reset:", "/table:"} {
		if i := strings.LastIndex(g, k); i >= 0 {
			return g[:i]
		}
	}
	return g
}

type expEntry struct {
	group, kind string
	slow        bool
}

func expectedPath(prop string) string {
	return filepath.Join(verifDir, "contracts", "expected", prop+".txt")
}

func readExpected(prop string) []expEntry {
	b, err := os.ReadFile(expectedPath(prop))
	if err != nil {
		return nil
	}
	var out []expEntry
	for _, ln := range strings.Split(string(b), "\n") {
		f := strings.Split(ln, "\t")
		if len(f) < 2 {
			continue
		}
		out = append(out, expEntry{f[0], f[1], len(f) > 2 && f[2] == "slow"})
	}
	return out
}

func groups2list(order []string, kind func(string) string) []expEntry {
	var out []expEntry
	for _, g := range order {
		out = append(out, expEntry{g, kind(g), false})
	}
	return out
}

func writeExpected(prop string, es []expEntry) {
	os.MkdirAll(filepath.Dir(expectedPath(prop)), 0o755)
	var sb strings.Builder
	for _, e := range es {
		sb.WriteString(e.group + "\t" + e.kind)
		if e.slow {
			sb.WriteString("\tslow")
		}
		sb.WriteString("\n")
	}
	os.WriteFile(expectedPath(prop), []byte(sb.String()), 0o644)
}

// fnIndex maps "<pkgPath>.<name>" to the function, per loaded program.
type fnIndex map[string]*ssa.Function

func buildFnIndex(prog *ssa.Program) fnIndex {
	idx := fnIndex{}
	for fn := range ssautil.AllFunctions(prog) {
		if fn.Pkg == nil || strings.Contains(fn.Name(), "$") {
			continue
		}
		idx[fn.String()] = fn
	}
	return idx
}

func (ix fnIndex) find(pkg, name string) *ssa.Function {
	// fn.String() is "pkg.Name" for functions and "(*pkg.T).M" / "(pkg.T).M" for methods
	if strings.HasPrefix(name, "(*") {
		return ix["(*"+pkg+"."+name[2:]]
	}
	if strings.HasPrefix(name, "(") {
		return ix["("+pkg+"."+name[1:]]
	}
	return ix[pkg+"."+name]
}

// verifyAll generates and solves the obligations of every selected contract.
func verifyAll(prog *ssa.Program, ix fnIndex, mine []*Contract, all map[string]*Contract, preds map[string]predDef, findings map[string][]Finding, o CheckOpts) []*FnReport {
	reports := make([]*FnReport, len(mine))
	type job struct {
		rep *FnReport
		e   *Engine
		ob  Obligation
		idx int
	}
	var jobs []job
	for i, c := range mine {
		rep := &FnReport{Name: pkgLabel(c.Pkg) + "." + c.Fn, Mode: c.Mode, Contract: c}
		reports[i] = rep
		fn := ix.find(c.Pkg, c.Fn)
		if fn == nil {
			rep.Err = "function not found in package " + c.Pkg + " (renamed or removed)"
			continue
		}
		var e *Engine
		t1 := time.Now()
		func() {
			defer func() {
				if r := recover(); r != nil {
					rep.Err = fmt.Sprintf("cannot generate verification conditions: %v", r)
				}
			}()
			e = verifyFunc(prog, fn, c, all, preds, findings)
		}()
		rep.Secs = time.Since(t1).Seconds()
		if e == nil {
			continue
		}
		rep.fn, rep.prog, rep.preds, rep.params, rep.bitsSyms = fn, prog, preds, e.paramSyms, e.bitsSyms
		rep.Havocs = sortedKeys(e.havocs)
		rep.Assumed = sortedKeys(e.assumedStd)
		for _, ob := range e.obls {
			if ob.Slow && o.Tier != "thorough" {
				continue
			}
			if ob.Kind == "cover" && o.Tier != "thorough" && !strings.HasSuffix(ob.Name, "@requires") {
				continue
			}
			if ob.Kind == "overflow" && !c.NoOverflow {
				continue
			}
			jobs = append(jobs, job{rep, e, ob, len(jobs)})
		}
	}
	results := make([]Result, len(jobs))
	var wg sync.WaitGroup
	sem := make(chan struct{}, o.Workers)
	// Phase 1: per function and kind, the bulk obligations go through one
	// incremental solver process; what it does not prove falls through to phase 2.
	done := make([]bool, len(jobs))
	if os.Getenv("GOVC_NOBATCH") == "" {
		type bkey struct {
			e    *Engine
			kind string
		}
		batches := map[bkey][]int{}
		var order []bkey
		for _, j := range jobs {
			switch j.ob.Kind {
			case "nopanic", "post", "keep", "at", "step":
			default:
				continue
			}
			if j.ob.Known {
				continue
			}
			k := bkey{j.e, j.ob.Kind}
			if _, ok := batches[k]; !ok {
				order = append(order, k)
			}
			batches[k] = append(batches[k], j.idx)
		}
		for _, k := range order {
			idxs := batches[k]
			if len(idxs) < 4 {
				continue
			}
			// chunks keep single processes short and let the cores share the work
			for c := 0; c < len(idxs); c += 64 {
				chunk := idxs[c:min(c+64, len(idxs))]
				wg.Add(1)
				sem <- struct{}{}
				go func(k bkey, chunk []int) {
					defer wg.Done()
					defer func() { <-sem }()
					obs := make([]Obligation, len(chunk))
					for i, ix := range chunk {
						obs[i] = jobs[ix].ob
					}
					rs := solveBatch(filepath.Join(o.OutDir, "smt"), k.e, obs, o.Timeout)
					for i, ix := range chunk {
						if rs[i].Verdict == "unsat" {
							results[ix] = rs[i]
							done[ix] = true
						}
					}
				}(k, chunk)
			}
		}
		wg.Wait()
	}
	for _, j := range jobs {
		if done[j.idx] {
			continue
		}
		wg.Add(1)
		sem <- struct{}{}
		go func(j job) {
			defer wg.Done()
			defer func() { <-sem }()
			limit := o.Timeout
			if j.ob.Kind == "cover" && limit > 15*time.Second {
				// reachability witnesses are informational (only an unreachable
				// precondition is an error): they do not get the long limit
				limit = 15 * time.Second
			}
			r := solve(filepath.Join(o.OutDir, "smt"), j.e, j.ob, limit)
			if o.Tier == "thorough" && r.Verdict == "unsat" {
				crossCheck(&r, 30*time.Second)
			}
			results[j.idx] = r
		}(j)
	}
	wg.Wait()
	// Phase 3: an obligation that was neither proved nor refuted (timeout,
	// unknown) is tried once more with twice the limit and little
	// competition for the cores, so that a loaded machine does not turn a
	// proof that normally takes a second into an alarm. Known-finding halves
	// and covers are not retried (they are expected not to be proved).
	// The limit of a retry is scaled by the load measured *now* (the load at the
	// start of the run says nothing when several checks were started together);
	// what is still undecided gets a last, almost sequential attempt.
	base := o.Timeout
	if f := loadFactor(); f > 1 {
		base = time.Duration(float64(base) / f) // o.Timeout was already scaled by the load at start
		if base < 20*time.Second {
			base = 20 * time.Second
		}
	}
	for attempt, par := range []int{6, 2, 1} {
		retry := make(chan struct{}, par)
		limit := time.Duration(float64(2*(attempt+1)) * float64(base) * loadFactor())
		if attempt == 2 {
			// last resort on a heavily loaded machine: a handful of obligations, one
			// at a time, with a long limit (skipped when many are undecided: that is
			// a broken contract or a real violation, not load)
			n := 0
			for _, j := range jobs {
				r := results[j.idx]
				if !(r.Verdict == "unsat" || r.Verdict == "sat" || j.ob.Known || j.ob.Kind == "cover" || strings.HasPrefix(r.Verdict, "error")) {
					n++
				}
			}
			if n > 8 || loadFactor() < 1.5 {
				break
			}
			limit = 8 * base * time.Duration(loadFactor())
			if limit > 10*time.Minute {
				limit = 10 * time.Minute
			}
		}
		if o.Tier == "thorough" && attempt == 0 {
			limit = o.Timeout
		}
		pending := 0
		for _, j := range jobs {
			r := results[j.idx]
			if r.Verdict == "unsat" || r.Verdict == "sat" || j.ob.Known || j.ob.Kind == "cover" || strings.HasPrefix(r.Verdict, "error") {
				continue
			}
			pending++
			wg.Add(1)
			retry <- struct{}{}
			go func(j job) {
				defer wg.Done()
				defer func() { <-retry }()
				r := solve(filepath.Join(o.OutDir, "smt"), j.e, j.ob, limit)
				r.Solver += "(retry)"
				results[j.idx] = r
			}(j)
		}
		wg.Wait()
		if pending == 0 {
			break
		}
	}
	for _, j := range jobs {
		j.rep.Results = append(j.rep.Results, results[j.idx])
	}
	return reports
}

func writeEvidence(o CheckOpts, reports []*FnReport, all []Result, nObl, nDis int, bySolver map[string][2]float64, known, violations []string, wall float64) {
	type sample struct {
		Obligation string  `json:"obligation"`
		Kind       string  `json:"kind"`
		Verdict    string  `json:"verdict"`
		Solver     string  `json:"solver"`
		Seconds    float64 `json:"seconds"`
		Query      string  `json:"query_file"`
		Bytes      int     `json:"query_bytes"`
	}
	var fns []string
	assume := map[string]bool{}
	var total float64
	for _, rep := range reports {
		tag := rep.Name + " [" + rep.Mode + "]"
		if rep.Err != "" {
			tag += " (NOT BOUND: " + rep.Err + ")"
		}
		fns = append(fns, tag)
		for _, h := range rep.Havocs {
			assume["havocked call (result and all reachable memory unconstrained) in "+rep.Name+": "+h] = true
		}
		for _, a := range rep.Assumed {
			assume["assumed std contract: "+a] = true
		}
		if rep.Contract != nil && rep.Mode == "int" {
			assume["integers of "+rep.Name+" are mathematical; int/int64 overflow is a separate obligation only where the contract says nooverflow"] = true
		}
	}
	sort.Slice(all, func(i, j int) bool { return all[i].Secs > all[j].Secs })
	var slowest []sample
	var samples []sample
	for i, r := range all {
		total += r.Secs
		s := sample{r.Name, r.Kind, r.Verdict, r.Solver, round2(r.Secs), r.File, r.Bytes}
		if i < 5 {
			slowest = append(slowest, s)
		}
	}
	// samples: up to 6 obligations of distinct kinds
	seenKind := map[string]int{}
	for _, r := range all {
		if seenKind[r.Kind] < 2 && len(samples) < 8 && !r.Known {
			seenKind[r.Kind]++
			samples = append(samples, sample{r.Name, r.Kind, r.Verdict, r.Solver, round2(r.Secs), r.File, r.Bytes})
		}
	}
	if len(samples) > 0 {
		if b, err := os.ReadFile(samples[0].Query); err == nil {
			txt := string(b)
			if len(txt) > 3000 {
				txt = txt[:3000] + "\n… (truncated)"
			}
			_ = txt
		}
	}
	bs := map[string]any{}
	for k, v := range bySolver {
		bs[k] = map[string]any{"count": int(v[0]), "seconds": round2(v[1])}
	}
	as := []string{}
	for k := range assume {
		as = append(as, k)
	}
	sort.Strings(as)
	as = append(as, residualNotes(o.Prop)...)
	covers := map[string]int{}
	for _, r := range all {
		if r.Kind == "cover" {
			covers[r.Verdict]++
		}
	}
	ev := map[string]any{
		"property_id": o.Prop,
		"tier":        o.Tier,
		"seed":        o.Seed,
		"level":       "proof",
		"coverage": map[string]any{
			"obligations":              nObl,
			"discharged":               nDis,
			"checker_cmd":              fmt.Sprintf("/verif/bin/check %s --tier %s  (govc: go/ssa of /repo's working tree with -tags=verif -> passive-form VCs -> z3-new 5.1.0 / z3 4.8.12 / cvc5 1.0.3 portfolio)", o.Prop, o.Tier),
			"trusted_base":             trustedBase(),
			"functions_under_contract": fns,
			"by_solver":                bs,
			"solver_seconds_total":     round2(total),
			"slowest":                  slowest,
			"samples":                  samples,
			"vacuity_cover_verdicts":   covers,
			"known_findings":           known,
			"timeout_per_obligation_s": o.Timeout.Seconds(),
			"explanation":              "every obligation is one SMT query generated from the SSA of the real function body; obligations counts exclude vacuity covers and the witness-restricted halves of known findings",
		},
		"assumptions": as,
		"wall_s":      round2(wall),
		"violations":  len(violations),
	}
	os.MkdirAll(filepath.Join(verifDir, "evidence"), 0o755)
	b, _ := json.MarshalIndent(ev, "", " ")
	os.WriteFile(filepath.Join(verifDir, "evidence", o.Prop+".json"), b, 0o644)
}

func round2(f float64) float64 { return float64(int(f*100+0.5)) / 100 }

func trustedBase() []string {
	return []string{
		"go/types + go/ssa (golang.org/x/tools v0.50.0) lowering of the Go source, and the Go compiler",
		"SMT solvers z3 4.8.12, z3 5.1.0, cvc5 1.0.3",
		"govc's SSA->SMT semantics (exercised by the must-fail self-test corpus and by replay)",
		"the specification clauses in /repo/**/zz_verif_contracts.go (they are the statement of the kernels)",
		"Go slices are no longer than 2^47 elements; single-threaded execution of the verified functions",
		"IEEE-754 binary32/64 without FMA contraction (true on amd64)",
	}
}

// checkConsts discharges the constant obligations by evaluating the declared
// constants with go/constant (no solver needed: both sides are ground).
func checkConsts(prog *ssa.Program, cs []ConstCheck) *FnReport {
	rep := &FnReport{Name: "constants", Mode: "ground"}
	for _, c := range cs {
		name := pkgLabel(c.Pkg) + ".const/table:" + c.Name
		r := Result{Name: name, Group: name, Kind: "table", Fn: "constants", Solver: "go/constant"}
		pkg := prog.ImportedPackage(c.Pkg)
		var obj types.Object
		if pkg != nil {
			obj = pkg.Pkg.Scope().Lookup(c.Name)
		}
		k, ok := obj.(*types.Const)
		switch {
		case !ok:
			r.Verdict = "error:constant " + c.Name + " not found"
		case k.Val().ExactString() == c.Want:
			r.Verdict = "unsat"
		default:
			r.Verdict = "sat"
			r.Model = fmt.Sprintf("%s is %s in the source, the specification says %s", c.Name, k.Val().ExactString(), c.Want)
		}
		rep.Results = append(rep.Results, r)
	}
	return rep
}

// checkTables discharges the data obligations on string tables by reading the
// composite literal that initialises the package-level variable.
func checkTables(pkgs []*packages.Package, ts []*TableCheck) *FnReport {
	rep := &FnReport{Name: "tables", Mode: "ground"}
	byPath := map[string]*packages.Package{}
	packages.Visit(pkgs, nil, func(p *packages.Package) { byPath[p.PkgPath] = p })
	add := func(name, verdict, model string) {
		rep.Results = append(rep.Results, Result{Name: name, Group: name, Kind: "table", Fn: "tables", Solver: "go/ast", Verdict: verdict, Model: model})
	}
	for _, t := range ts {
		base := pkgLabel(t.Pkg) + ".table:" + t.Var
		p := byPath[t.Pkg]
		var keys map[string]bool
		if p != nil {
			keys = stringTableKeys(p, t.Var)
		}
		if keys == nil {
			add(base+"/table:bind", "error:table variable "+t.Var+" not found or not a string table literal", "")
			continue
		}
		for _, w := range t.Contains {
			if keys[w] {
				add(base+"/table:contains:"+w, "unsat", "")
			} else {
				add(base+"/table:contains:"+w, "sat", "the table does not reserve "+w)
			}
		}
		for _, sfx := range t.NoSuffix {
			// the escaped spelling of a reserved word E is E+sfx: it must not be
			// reserved itself
			bad := ""
			for k := range keys {
				if keys[k+sfx] {
					bad = k + sfx
				}
			}
			if bad == "" {
				add(base+"/table:none-suffix:"+sfx, "unsat", "")
			} else {
				add(base+"/table:none-suffix:"+sfx, "sat", "entry "+bad+" is the escaped form of another entry")
			}
		}
		for _, re := range t.NoMatch {
			rx, err := regexp.Compile(re)
			if err != nil {
				add(base+"/table:none-match:"+re, "error:bad pattern", "")
				continue
			}
			bad := ""
			for k := range keys {
				if rx.MatchString(k) {
					bad = k
				}
			}
			if bad == "" {
				add(base+"/table:none-match:"+re, "unsat", "")
			} else {
				add(base+"/table:none-match:"+re, "sat", "entry "+bad+" matches "+re)
			}
		}
	}
	return rep
}

// stringTableKeys returns the string keys/elements of the composite literal that
// initialises package-level variable name (map[string]T{...} or []string{...}).
func stringTableKeys(p *packages.Package, name string) map[string]bool {
	for _, f := range p.Syntax {
		for _, d := range f.Decls {
			gd, ok := d.(*ast.GenDecl)
			if !ok || gd.Tok != token.VAR {
				continue
			}
			for _, sp := range gd.Specs {
				vs := sp.(*ast.ValueSpec)
				for i, id := range vs.Names {
					if id.Name != name || i >= len(vs.Values) {
						continue
					}
					cl, ok := vs.Values[i].(*ast.CompositeLit)
					if !ok {
						return nil
					}
					keys := map[string]bool{}
					for _, el := range cl.Elts {
						var e ast.Expr = el
						if kv, ok := el.(*ast.KeyValueExpr); ok {
							e = kv.Key
						}
						if tv, ok := p.TypesInfo.Types[e]; ok && tv.Value != nil && tv.Value.Kind() == constant.String {
							keys[constant.StringVal(tv.Value)] = true
						}
					}
					return keys
				}
			}
		}
	}
	return nil
}

// loadFactor is 1-minute load average / number of CPUs, clamped to [1,4].
func loadFactor() float64 {
	b, err := os.ReadFile("/proc/loadavg")
	if err != nil {
		return 1
	}
	var l1 float64
	fmt.Sscanf(string(b), "%f", &l1)
	f := l1 / float64(runtime.NumCPU())
	if f < 1 {
		return 1
	}
	if f > 4 {
		return 4
	}
	return f
}

// pruneQueries keeps, after a clean run, only the query files that the evidence
// file refers to (samples, slowest obligations): the rest are several hundred
// megabytes per property and are regenerated by the next run anyway.
func pruneQueries(o CheckOpts) {
	keep := map[string]bool{}
	if b, err := os.ReadFile(filepath.Join(verifDir, "evidence", o.Prop+".json")); err == nil {
		for _, m := range regexp.MustCompile(`"(/[^"]+\.smt2)"`).FindAllStringSubmatch(string(b), -1) {
			keep[m[1]] = true
		}
	}
	dir := filepath.Join(o.OutDir, "smt")
	ents, err := os.ReadDir(dir)
	if err != nil {
		return
	}
	for _, e := range ents {
		p := filepath.Join(dir, e.Name())
		if !keep[p] {
			os.Remove(p)
		}
	}
}
