package main

import (
	"flag"
	"fmt"
	"os"
	"strconv"
	"time"
)

func main() {
	if len(os.Args) < 2 {
		fmt.Println("usage: govc check <Cxx> [--tier quick|thorough] [--only substr] [--update-expected] | govc selftest [Cxx] | govc replay <dir>")
		os.Exit(2)
	}
	switch os.Args[1] {
	case "check":
		fs := flag.NewFlagSet("check", flag.ExitOnError)
		tier := fs.String("tier", os.Getenv("VERIF_TIER"), "quick or thorough")
		only := fs.String("only", "", "substring filter on function names (development only)")
		update := fs.Bool("update-expected", false, "rewrite /verif/contracts/expected/<Cxx>.txt")
		timeout := fs.Duration("t", 0, "per-obligation timeout")
		quiet := fs.Bool("q", false, "quiet")
		if len(os.Args) < 3 {
			fmt.Println("property id required")
			os.Exit(2)
		}
		prop := os.Args[2]
		fs.Parse(os.Args[3:])
		if *tier == "" {
			*tier = "quick"
		}
		seed, _ := strconv.Atoi(os.Getenv("VERIF_SEED"))
		code := runCheck(CheckOpts{Prop: prop, Tier: *tier, Seed: seed, Only: *only, Update: *update, Timeout: *timeout, Quiet: *quiet, NoEvid: *only != "" || os.Getenv("GOVC_NOEVIDENCE") != ""})
		if code == 0 && *tier == "thorough" && *only == "" {
			code = runSelftest(prop, 60*time.Second)
		}
		os.Exit(code)
	case "selftest":
		prop := ""
		if len(os.Args) > 2 {
			prop = os.Args[2]
		}
		os.Exit(runSelftest(prop, 60*time.Second))
	case "sweep":
		fs := flag.NewFlagSet("sweep", flag.ExitOnError)
		timeout := fs.Duration("t", 5*time.Second, "per-obligation timeout")
		filter := fs.String("only", "", "substring filter")
		fs.Parse(os.Args[2:])
		os.Exit(runSweep(fs.Args(), *timeout, *filter))
	case "replay":
		if len(os.Args) < 3 {
			fmt.Println("replay directory required")
			os.Exit(2)
		}
		os.Exit(runReplay(os.Args[2]))
	default:
		fmt.Println("unknown command", os.Args[1])
		os.Exit(2)
	}
}
