#!/bin/bash
# usage: sum.sh Cxx [extra args] : compact summary of a check run
/verif/bin/check "$@" 2>&1 | grep -v "^KNOWN" | sed 's/.*obligation=//' | awk '/reason=/{split($1,a,"/"); n=a[1]; if (a[2] ~ /^[a-z]+$/ && a[3]!="") n=a[1]"/"a[2]; c[n" "$2]++} /^property/{print} /ENGINE/{print} END{for(k in c) print c[k], k}' | sort | cut -c1-200 | head -${LINES_MAX:-25}
