#!/bin/bash
# runs the must-fail corpus of every property that has one; prints a summary line per property
for f in /verif/selftest/C*.jsonl; do
  p=$(basename $f .jsonl)
  /verif/bin/govc selftest $p > /verif/out/selftest-$p.log 2>&1
  echo "$p rc=$? $(grep -c ': ok' /verif/out/selftest-$p.log) ok, $(grep -c 'MISSED' /verif/out/selftest-$p.log) missed"
done
