#!/bin/bash
# usage: verify_seed.sh <worktree> <seeddir> ; confirms: demo passes unpatched; with patch: builds, suite passes, demo fails.
export PATH=/opt/veriftools/go1.26.8/bin:$PATH GOFLAGS=-mod=mod GOPROXY=off GOSUMDB=off GOTOOLCHAIN=local
wt=$1; sd=$2
cd $wt || exit 2
git checkout -q -- . 
demo_src=$(ls $sd/*_test.go | head -1)
dst=$(jq -r .demo_path_in_repo $sd/meta.json)
runre=$(jq -r .demo_run_cmd $sd/meta.json | grep -o "\-run [A-Za-z0-9_]*" | head -1)
tags=$(jq -r .demo_run_cmd $sd/meta.json | grep -o "\-tags [A-Za-z0-9_]*" | head -1)
runre="$tags $runre"
mkdir -p $wt/$(dirname $dst)
pkg=./$(dirname $dst)/
cp $demo_src $wt/$dst
echo "--- unpatched demo (must pass)"
go test -vet=off -count=1 $runre $pkg 2>&1 | tail -2
a=${PIPESTATUS[0]}
git apply $sd/patch.diff || { echo APPLY-FAILED; rm -f $wt/$dst; exit 2; }
echo "--- patched: build + suite (must pass)"
go build ./... 2>&1 | tail -3
mv $wt/$dst /tmp/demo_hold_$$.go
go test -vet=off -count=1 ./... 2>&1 | grep -v "^ok\|no test files" | tail -5
s=${PIPESTATUS[0]}
mv /tmp/demo_hold_$$.go $wt/$dst
echo "--- patched demo (must fail)"
go test -vet=off -count=1 $runre $pkg 2>&1 | tail -4
b=${PIPESTATUS[0]}
git checkout -q -- .; rm -f $wt/$dst; rmdir -p $wt/$(dirname $dst) 2>/dev/null
echo "RESULT unpatched=$a suite=$s patched=$b"
