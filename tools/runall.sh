#!/bin/bash
# runs every claimed quick check; prints one line per property
for p in $(jq -r '.checks[].property_id' /verif/MANIFEST.json); do
  /verif/bin/check $p --tier quick -q > /tmp/runall-$p.log 2>&1; rc=$?
  echo "$p rc=$rc $(grep -c '^VIOLATION' /tmp/runall-$p.log) violations, $(grep -c '^KNOWN' /tmp/runall-$p.log) known; $(jq -r '"\(.coverage.obligations) obl \(.wall_s)s"' /verif/evidence/$p.json)"
done
