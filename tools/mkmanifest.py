#!/usr/bin/env python3
"""Regenerates /verif/MANIFEST.json from the table below (kept in one place so the
claimed set, the technique strings and the not_applicable reasons stay in sync)."""
import json, subprocess, os

BASE = "export PATH=/opt/veriftools/go1.26.8/bin:$PATH GOFLAGS=-mod=mod GOPROXY=off GOSUMDB=off GOTOOLCHAIN=local; cd /repo && go test -vet=off -count=1 ./..."

TECH = "contract-based deductive verification: weakest-precondition VCs generated from go/ssa of the real functions (contracts in //go:build verif comment files in /repo), discharged by z3/cvc5"

NOTE = ("Trusted: go/types+go/ssa lowering, the SMT solvers, govc's SSA->SMT rules (exercised by the must-fail corpus), the contract clauses themselves, "
        "assumed std contracts and havocked callees listed in the evidence file. Proves the kernel obligations named in DESIGN.md for this property, "
        "not the whole-compiler statement; the residual is listed under assumptions in the evidence.")

claimed = {
  "C01": ("4 C01", "SPIR-V selection tables proved against the instruction semantics: emitBinary (operator x scalar kind on all eleven AddBinaryOp sites), emitUnary, selectConversionOp, atomicOpcode; opcode constants equal the specification's numbers; f16 OpConstant bits bit-exact RNE; the lowerer's loop constructs restore the inside-loop flag; interface scan and backend Reset shared with C02/C12"),
  "C08": ("4 C08", "validator control-flow rules: a break is reported only outside every loop and switch or directly in a loop's own continuing block, a continue only outside every loop or directly in its own continuing block; every nested block is validated in the context WGSL prescribes and the context is restored after every statement; selector tables (builtin, storage class, HLSL operator/type spellings, GLSL reachability) are total on their valid domains"),
  "C10": ("4 C10", "no run-time panic and termination proved for the whole WGSL lexer (every source string), the DXIL bit writer, the DXBC container serialiser and retail hash, ir.TypeSize, SPIR-V Build/WriteTo and swizzlePattern"),
  "C11": ("4 C11", "token positions (line/column of the first character, column >= 1) for every source string; constant evaluators reject zero divisors; const_assert comparisons are the WGSL comparisons; swizzle validation; dependency collector reaches every node (callees lowered before callers)"),
  "C15": ("4 C15", "bounds-check decisions: MSL accesses are left unclamped only for a literal index below the static length, clamp bound is length-1, policy chosen by the pointer's address space (pointer parameters by their type); HLSL clamp bound; signed-minimum literal of the div/mod guards; workgroup variables reached from nested blocks are zero-initialised"),
  "C16": ("4 C16", "reserved-word tables of the three text back ends contain the languages' keywords (and MSL naga's helper names), no entry is the escaped spelling of another; the three namers test the sanitised spelling for being reserved"),
  "C17": ("4 C17", "WGSL builtin -> SPIR-V BuiltIn and address space -> StorageClass tables against the specification's enumerants; binding sort comparators are total orders on the binding keys; entry-point interface collection descends into every nested block; MSL per-entry-point resource map is reset for entry points without an explicit map"),
  "C02": ("4 C02", "SPIR-V physical layout proved for every module: instruction encoding (word count, operands, little-endian), header words (magic, generator, bound = next unused id, schema), sections written in the mandated order each starting where the previous ended, buffer length = header + all sections; ID allocator returns fresh ids; opcode numbers equal the specification's"),
  "C03": ("4 C03", "HLSL operator/type/cast spellings, the byte-address step of every storage access (member offset, index*stride for arrays, vectors, matrix columns), the RestrictIndexing clamp bound (columns-1 for matrices), single-channel storage-format wrappers; statement reference counting visits every nested block"),
  "C04": ("4 C04", "MSL reference counting and statement walking visit every expression handle and nested block (type-derived); operands that need parentheses (binary, scalar select, array length); f16 literal widening exact; signed-minimum literal per width; typeSize equals WGSL SizeOf; pipeline-constant remapper keeps every non-handle field"),
  "C05": ("4 C05", "GLSL per-entry-point reachability marks every type/constant/global handle of every expression kind, statement walkers descend into every nested block (type-derived); a switch clause is left without its own break only when its last statement is a terminator"),
  "C06": ("4 C06", "f32<->f16 conversion kernels (float32ToHalf, halfToFloat32, roundToF16, DXIL float32ToF16Bits) proved bit-exact against SMT FloatingPoint round-to-nearest-even for all 2^32 inputs; literal carriers exact; every folded value of tryFoldBinaryOp / evalConstantBinaryExpr equals the WGSL operator on the operand literals, zero divisors are not folded"),
  "C07": ("4 C07", "ir.TypeSize / typeInnerSize / vectorAlignment equal WGSL SizeOf/AlignOf for every type shape; lowerStruct / typeAlignmentAndSize member offsets and spans follow the WGSL recurrence incl. @align/@size; SPIR-V Offset/MatrixStride decorations and HLSL byte-address steps equal the IR layout"),
  "C09": ("4 C09", "compaction marks and remaps every handle of every expression and statement kind (type-derived, incl. in-place statement loops); abstract literals take the destination's scalar type; the declaration-dependency collector reaches every node of the syntax tree"),
  "C12": ("4 C12", "history: SPIR-V Reset functions clear every field (type-derived) and restore the configured version; iteration order: every sort comparator over map-collected data is a strict weak order separating the keys, functions that number what they append do not range over maps; aliasing: override remapper writes none of the caller's cells (CloneModuleForOverrides: known finding)"),
  "C13": ("4 C13", "type-derived traverse/keep obligations for the per-node functions of compaction, override resolution, inlining, the DXIL dce/mem2reg/sroa passes and the MSL pipeline-constant remapper: every handle of every expression and statement kind is handled, nested blocks are entered, everything else unchanged"),
  "C14": ("4 C14", "override resolution's expression remapper is the same function of its input as compaction's and does not alter the caller's module; override evaluator kernels (EvalBinaryFloat/EvalUnaryFloat/LiteralToFloat/evaluateGlobalExprAsFloat) against the WGSL operators (10 known findings); MSL override literal conversion and handle adjustment"),
  "C18": ("4 C18", "bit writer (WriteBits/Align32/WriteVBR step-form content/zig-zag/char6/Enter-ExitBlock back-patch), DXBC container serialisation, retail hash block schedule, PSV table sizing, f16 constant bits, DXIL statement walkers, value renumbering (which operands are value ids; ret operand remapped incl. id 0), deterministic phi numbering"),
}

not_applicable = {
  "C19": "relational (two-run) property of the whole front end; unary function contracts cannot state it (DESIGN.md section 5)",
}

props = [json.loads(l)["id"] for l in open("/verif/properties.jsonl")]
pending = "no kernel obligation of this property is discharged by the committed framework yet (planned kernels: DESIGN.md section 4); not claimed until its check runs clean"

def commits():
    out = subprocess.run(["git", "-C", "/repo", "log", "--format=%H %s"], capture_output=True, text=True).stdout.splitlines()
    return [l.split()[0] for l in out if l.split(" ", 1)[1].startswith("verif:")]

m = {
  "version": 1,
  "setup_cmd": "cd /verif && ./setup.sh",
  "hooks": {
    "guard": "verif",
    "enable": "go build tag: -tags=verif (the only hook files are comment-only zz_verif_contracts.go files, one per package under contract)",
    "baseline_off_cmd": BASE,
    "source_commits": commits(),
    "add_only": True,
  },
  "engines": [{"name": "govc", "path": "/verif/engine", "serves_properties": sorted(claimed), "kind_free_text": "contract verifier for Go: go/ssa -> passive-form verification conditions -> SMT portfolio (z3 4.8.12, z3 5.1.0, cvc5 1.0.3); replay through go test -overlay"}],
  "checks": [],
  "not_applicable": [],
  "notes": "Contracts live in /repo/**/zz_verif_contracts.go (build tag verif, comments only). Known genuine defects: /verif/known_findings.txt. Seeded breaking changes: /verif/seeded/. Must-fail corpus: /verif/selftest/.",
}
for p in props:
    if p in claimed:
        ref, text = claimed[p]
        m["checks"].append({
          "property_id": p,
          "quick_cmd": f"/verif/bin/check {p} --tier quick",
          "thorough_cmd": f"/verif/bin/check {p} --tier thorough",
          "evidence_file": f"/verif/evidence/{p}.json",
          "replay_cmd_template": "/verif/bin/check --replay {path}",
          "engine": "govc",
          "level_claimed": {"category": "proof", "text": text, "design_ref": ref},
          "level_note": NOTE,
          "technique": TECH,
        })
    else:
        m["not_applicable"].append({"property_id": p, "reason": not_applicable.get(p, pending)})
json.dump(m, open("/verif/MANIFEST.json", "w"), indent=1)
print("claimed:", sorted(claimed), "not_applicable:", len(m["not_applicable"]))
