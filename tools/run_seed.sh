#!/bin/bash
# usage: run_seed.sh <Cxx> <patch.diff> : applies the patch to /repo, runs the quick check, undoes the patch.
cd /repo && git apply "$2" || { echo APPLY-FAILED; exit 2; }
GOVC_NOEVIDENCE=1 /verif/bin/check $1 --tier quick -q 2>&1 | grep -v "^KNOWN-FINDING" | cut -c1-260 | tail -${3:-6}
git -C /repo checkout -- .
git -C /repo status --short | grep -v "^??" | head -3
